#!/usr/bin/env python3
"""seedrebase.py <worktree> <seed dir>... : carry a stored seeded change over to the current HEAD when its patch no longer applies.

For every hunk the removed lines are looked up in the current file (ignoring the context lines, which later repairs may have
changed) and replaced by the added lines; a hunk that only adds lines is anchored on the nearest context line above it that still
exists.  A hunk whose removed lines are not found verbatim is tried again with leading white space ignored (re-indented code).
The result is written as patch.diff (the original is kept as patch.orig.diff) only if every hunk could be placed; the caller
re-confirms it with bin/seedrecheck.sh.  The worktree must be a clean checkout of HEAD; it is left clean."""
import sys, re, os, subprocess, shutil

def parse(diff):
    files = []
    for sect in re.split(r'(?m)^(?=diff --git )', diff):
        if not sect.startswith('diff --git'): continue
        m = re.search(r'(?m)^\+\+\+ b/(\S+)', sect)
        if not m: continue
        hunks = []
        for h in re.split(r'(?m)^(?=@@ )', sect)[1:]:
            lines = h.split('\n')[1:]
            hunks.append([l for l in lines if l[:1] in (' ', '+', '-')])
        files.append((m.group(1), hunks))
    return files

def place(text, hunk):
    src = text.split('\n')
    # split the hunk into change groups separated by context
    groups, ctx_before, cur = [], [], None
    for l in hunk:
        if l[0] == ' ':
            if cur: groups.append(cur); cur = None
            ctx_before.append(l[1:])
        else:
            if cur is None: cur = {'ctx': list(ctx_before), 'rem': [], 'add': []}
            (cur['rem'] if l[0] == '-' else cur['add']).append(l[1:])
    if cur: groups.append(cur)
    pos_hint = 0
    for g in groups:
        rem, add = g['rem'], g['add']
        if rem:
            idx = find(src, rem, pos_hint, strip=False)
            indent_fix = None
            if idx is None:
                idx = find(src, rem, pos_hint, strip=True)
                if idx is None: return None
                # re-indent the added lines by the difference in indentation of the first removed line
                old_ind = len(rem[0]) - len(rem[0].lstrip()); new_ind = len(src[idx]) - len(src[idx].lstrip()); indent_fix = new_ind - old_ind
            if indent_fix: add = [(' ' * indent_fix + a if indent_fix > 0 and a.strip() else a[-indent_fix:] if indent_fix < 0 and a[:-indent_fix].strip() == '' else a) for a in add]
            src[idx:idx + len(rem)] = add
            pos_hint = idx + len(add)
        else:
            # pure addition: after the last context line above that still exists
            anchor = None
            for c in reversed(g['ctx']):
                if not c.strip(): continue
                i = find(src, [c], pos_hint, strip=False)
                if i is None: i = find(src, [c], 0, strip=True)
                if i is not None: anchor = i; break
            if anchor is None: return None
            src[anchor + 1:anchor + 1] = add
            pos_hint = anchor + 1 + len(add)
    return '\n'.join(src)

def find(src, block, start, strip):
    f = (lambda x: x.strip()) if strip else (lambda x: x)
    b = [f(x) for x in block]
    hits = [i for i in range(len(src) - len(b) + 1) if [f(x) for x in src[i:i + len(b)]] == b]
    if not hits: return None
    after = [i for i in hits if i >= start]
    return (after or hits)[0]

def main():
    wt = sys.argv[1]
    for d in sys.argv[2:]:
        d = d.rstrip('/')
        orig = os.path.join(d, 'patch.orig.diff') if os.path.exists(os.path.join(d, 'patch.orig.diff')) else os.path.join(d, 'patch.diff')
        files = parse(open(orig).read())
        subprocess.run('git checkout -q -- .', shell=True, cwd=wt, check=True)
        ok = True
        for path, hunks in files:
            fp = os.path.join(wt, path)
            if not os.path.exists(fp): ok = False; break
            text = open(fp).read()
            for h in hunks:
                text2 = place(text, h)
                if text2 is None: ok = False; break
                text = text2
            if not ok: break
            open(fp, 'w').write(text)
        name = os.path.basename(d)
        if not ok:
            print(name, 'COULD-NOT-PLACE'); subprocess.run('git checkout -q -- .', shell=True, cwd=wt); continue
        new = subprocess.run('git diff', shell=True, cwd=wt, capture_output=True, text=True).stdout
        subprocess.run('git checkout -q -- .', shell=True, cwd=wt)
        if not new.strip(): print(name, 'EMPTY (already in HEAD)'); continue
        if not os.path.exists(os.path.join(d, 'patch.orig.diff')): shutil.copy(os.path.join(d, 'patch.diff'), os.path.join(d, 'patch.orig.diff'))
        open(os.path.join(d, 'patch.diff'), 'w').write(new)
        print(name, 'rebased', len(new.splitlines()), 'lines')

main()
