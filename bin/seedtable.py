#!/usr/bin/env python3
"""seedtable.py <prefix> : markdown table of the stored seeded changes whose id starts with <prefix>- (from seeded/*/meta.json)."""
import sys, os, json, glob
pref = sys.argv[1]
print("| id | property | change (author's title) | caught by (quick tier, seed 1) |\n|---|---|---|---|")
for d in sorted(glob.glob(f"/verif/seeded/{pref}-*")):
    m = json.load(open(os.path.join(d, "meta.json")))
    title = ""
    rp = os.path.join(d, "README.md")
    if os.path.exists(rp):
        for l in open(rp):
            if l.strip().startswith("#"):
                title = l.strip().lstrip("# ").strip(); break
    det = []
    for c, r in m["detection"].items():
        if r["quick_exit"] == 1:
            det.append(c + ": " + ", ".join(f"`{k['key']}` x{k['count']}" for k in r["keys"][:2]))
        elif c == m["property"]:
            det.append(c + ": not reported")
    ident = m['id'] + (f" ({m['status']})" if m.get('status') else "") + (" (carried over to the repaired code)" if os.path.exists(os.path.join(d, "patch.orig.diff")) else "")
    print(f"| {ident} | {m['property']} | {title} | {'; '.join(det)} |")
