#!/bin/bash
# soak.sh <seed...> : run every registered quick check for the given seeds, print one line per failure
cd /verif
for s in "$@"; do
  for c in C01 C02 C03 C04 C05 C06 C07 C08 C09 C10 C11 C12 C13 C14 C15 C16 C17 C18 C19 C20; do
    out=$(VERIF_SEED=$s bin/check $c 2>&1); rc=$?
    if [ $rc -ne 0 ]; then echo "seed=$s $c rc=$rc"; echo "$out" | grep -E "VIOLATION|INCONC|HARNESS|key=" | head -6 | cut -c1-400; fi
  done
done
echo "soak done: $*"
