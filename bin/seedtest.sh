#!/bin/bash
# seedtest.sh <patch.diff> <Cxx> [Cyy ...]  : apply a seeded change to /repo, run the quick checks, undo it.
# Uses a scratch copy (VERIF_REPO) so that /repo itself is never left modified.
set -u
PATCH=$(readlink -f "$1"); shift
S=/tmp/seedrepo.$$
rm -rf $S; mkdir -p $S && (cd /repo && git archive HEAD | tar -x -C $S) || exit 2
(cd $S && git init -q . >/dev/null 2>&1; patch -p1 -s < "$PATCH") || { echo "patch does not apply"; rm -rf $S; exit 2; }
cd /verif
for c in "$@"; do
  out=$(VERIF_EVIDENCE_DIR=$S/_evidence VERIF_REPO=$S VERIF_SEED=${VERIF_SEED:-1} bin/check $c ${TIER:+--tier $TIER} 2>&1); rc=$?
  echo "== $c rc=$rc"; echo "$out" | grep -E "^\[|VIOLATION|key=|INCONC|HARNESS" | head -${LINES_SHOWN:-7} | cut -c1-330
done
rm -rf $S
