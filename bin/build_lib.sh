#!/bin/bash
# build_lib.sh <flavour>  -> prints the directory holding libcimba.a built from
# /repo's *current working tree* with -DCIMBA_VERIF, for the given flavour.
#
# The directory name carries a SHA-256 over the contents of /repo/{src,include,
# codegen} and the flag string, so any changed source byte forces a rebuild and
# an unchanged tree is built once.  Builds are serialised with flock.
set -e
FLAV=${1:-rel}
REPO=${VERIF_REPO:-/repo}
VERIF=$(cd "$(dirname "$0")/.." && pwd)
BROOT=$VERIF/build
mkdir -p "$BROOT"

COMMON="-std=c17 -D_POSIX_C_SOURCE=200809L -Wno-pedantic -DCIMBA_VERIF -fno-semantic-interposition"
case "$FLAV" in
  rel)  CC=gcc; FLAGS="-O3 -DNDEBUG -g" ;;
  asan) CC=gcc; FLAGS="-O1 -g -DNDEBUG -fno-omit-frame-pointer -fsanitize=address,undefined -fno-sanitize-recover=all" ;;
  tsan) CC=gcc; FLAGS="-O1 -g -DNDEBUG -fsanitize=thread" ;;
  dbg)  CC=gcc; FLAGS="-O1 -g" ;;
  *) echo "unknown flavour $FLAV" >&2; exit 2 ;;
esac

HASH=$( (cd "$REPO" && find src include codegen -type f \( -name '*.c' -o -name '*.h' -o -name '*.asm' -o -name '*.inc' \) -print0 | sort -z | xargs -0 sha256sum; echo "$CC $COMMON $FLAGS") | sha256sum | cut -c1-16)
OUT=$BROOT/$FLAV-$HASH

exec 9>"$BROOT/.lock-$FLAV"
flock 9
if [ -f "$OUT/libcimba.a" ] && [ -f "$OUT/.ok" ]; then
  echo "$OUT"; exit 0
fi
# prune stale builds of this flavour (keeps disk use bounded)
for d in "$BROOT/$FLAV"-*; do [ -d "$d" ] && [ "$d" != "$OUT" ] && rm -rf "$d"; done
rm -rf "$OUT"; mkdir -p "$OUT/gen" "$OUT/obj"
{
gcc -O1 -o "$OUT/gen/calc_exp" "$REPO/codegen/calc_exponential.c" "$REPO/codegen/calc_utils.c" -lm
gcc -O1 -o "$OUT/gen/calc_nor" "$REPO/codegen/calc_normal.c" "$REPO/codegen/calc_utils.c" -lm
"$OUT/gen/calc_exp" > "$OUT/gen/cmi_random_exp_zig.inc"
"$OUT/gen/calc_nor" > "$OUT/gen/cmi_random_nor_zig.inc"
nasm -f elf64 "$REPO/src/port/x86-64/linux/cmi_coroutine_context.asm" -o "$OUT/obj/ctx_asm.o"
nasm -f elf64 "$REPO/src/port/x86-64/linux/cmi_random_hwseed.asm" -o "$OUT/obj/hwseed_asm.o"
pids=()
for f in "$REPO"/src/*.c "$REPO"/src/port/x86-64/linux/*.c; do
  b=$(basename "$f" .c)
  $CC $COMMON $FLAGS -I"$REPO/src" -I"$REPO/include" -I"$OUT/gen" -c "$f" -o "$OUT/obj/$b.o" &
  pids+=($!)
done
for p in "${pids[@]}"; do wait "$p"; done
ar rcs "$OUT/libcimba.a" "$OUT"/obj/*.o
} >&2
echo "$CC $COMMON $FLAGS" > "$OUT/.flags"
touch "$OUT/.ok"
echo "$OUT"
