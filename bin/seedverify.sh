#!/bin/bash
# seedverify.sh <seed_dir with patch.diff and demo.c> <out.txt> : independent confirmation in a scratch worktree:
#   (1) patched tree compiles and passes the pinned suite, (2) demo fails with the patch, (3) demo passes without it.
D=$(readlink -f "$1"); OUT=$2; W=/tmp/sv.$$
{
git -C /repo worktree add -q --detach $W HEAD || exit 2
cd $W
demo_run() { gcc -O1 -I include -I src "$D/demo.c" -L _build/src -lcimba -lm -lpthread -o /tmp/sv_demo.$$ 2>/dev/null && LD_LIBRARY_PATH=_build/src timeout ${DEMO_TIMEOUT:-120} /tmp/sv_demo.$$ >/tmp/sv_demo_out.$$ 2>&1; echo $?; }
meson setup _build >/dev/null 2>&1 && meson compile -C _build >/dev/null 2>&1 || { echo "BASE BUILD FAILED"; }
echo "demo_without_patch_exit=$(demo_run)"; tail -2 /tmp/sv_demo_out.$$ | cut -c1-200
git apply "$D/patch.diff" 2>/dev/null || patch -p1 -s --no-backup-if-mismatch < "$D/patch.diff" || echo "PATCH DOES NOT APPLY"
if meson compile -C _build >/tmp/sv_build.$$ 2>&1; then echo "patched_build=ok"; else echo "patched_build=FAILED"; tail -5 /tmp/sv_build.$$; fi
echo "demo_with_patch_exit=$(demo_run)"; tail -2 /tmp/sv_demo_out.$$ | cut -c1-200
meson test -C _build > /tmp/sv_test.$$ 2>&1; grep -E "^Ok:|^Fail:|^Timeout:" /tmp/sv_test.$$ | tr '\n' ' '; echo
cd /; git -C /repo worktree remove --force $W; rm -f /tmp/sv_demo.$$ /tmp/sv_demo_out.$$ /tmp/sv_build.$$ /tmp/sv_test.$$
} > "$OUT" 2>&1
