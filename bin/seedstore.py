#!/usr/bin/env python3
"""seedstore.py <Cxx> <m1|m2> [extra checks...] : file an independently written, confirmed seeded change under /verif/seeded/."""
import sys, os, json, shutil, subprocess, re
prop, m = sys.argv[1], sys.argv[2]
checks = [prop] + sys.argv[3:]
pref = os.environ.get("SEEDPREFIX", "S")
src = os.environ.get("SEEDSRC", "/tmp/wt/{prop}/_seed/{m}").format(prop=prop, m=m)
sid = f"{pref}-{prop}-{m}"
dst = f"/verif/seeded/{sid}"
os.makedirs(dst, exist_ok=True)
for f in ("patch.diff", "demo.c", "README.md"):
    if os.path.exists(os.path.join(src, f)) and os.path.realpath(src) != os.path.realpath(dst): shutil.copy(os.path.join(src, f), os.path.join(dst, f))
sv = open(f"/tmp/svout/{prop}__seed_{m}.txt").read() if os.path.exists(f"/tmp/svout/{prop}__seed_{m}.txt") else ""
confirm = {
    "demo_without_patch_exit": (re.search(r"demo_without_patch_exit=(\S+)", sv) or [None, None])[1],
    "demo_with_patch_exit": (re.search(r"demo_with_patch_exit=(\S+)", sv) or [None, None])[1],
    "patched_build": (re.search(r"patched_build=(\S+)", sv) or [None, None])[1],
    "pinned_suite_with_patch": " ".join(re.findall(r"(?:Ok|Fail|Timeout):\s+\d+", sv)),
}
det = {}
for c in checks:
    r = subprocess.run(f"LINES_SHOWN=6 /verif/bin/seedtest.sh {dst}/patch.diff {c}", shell=True, capture_output=True, text=True).stdout
    rc = re.search(r"rc=(\d+)", r)
    keys = re.findall(r"key=(\S+) count=(\d+)", r)
    det[c] = {"quick_exit": int(rc.group(1)) if rc else None, "keys": [{"key": k, "count": int(n)} for k, n in keys]}
readme = open(os.path.join(dst, "README.md")).read() if os.path.exists(os.path.join(dst, "README.md")) else ""
needs = ""
mm = re.search(r"(?is)(what (?:it )?(?:needs|takes)[^\n]*\n.*?)(?:\n#|\n\*\*|\Z)", readme)
meta = {
    "id": sid, "property": prop, "written_by": "independent sub-agent given only the property text and a scratch worktree (nothing from /verif)",
    "what_it_needs_to_manifest": "see README.md (author's description of the trigger)",
    "confirmed_by_me": {"how": "bin/seedverify.sh in a fresh scratch worktree: build at HEAD, run demo; apply patch, rebuild, run demo, run `meson test`", **confirm},
    "detection": det,
    "commands": [f"bin/seedtest.sh seeded/{sid}/patch.diff " + " ".join(checks)],
}
json.dump(meta, open(os.path.join(dst, "meta.json"), "w"), indent=1)
print(sid, confirm, {c: (d["quick_exit"], [k["key"] for k in d["keys"]][:2]) for c, d in det.items()})
