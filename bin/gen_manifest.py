#!/usr/bin/env python3
"""Regenerate MANIFEST.json from harness/registry.py (single source of truth)."""
import json, os, sys, subprocess
VERIF = os.path.dirname(os.path.dirname(os.path.abspath(__file__)))
sys.path.insert(0, os.path.join(VERIF, "harness"))
from registry import PROPS, MANIFEST_TEXT, NOT_APPLICABLE  # noqa

props = [json.loads(l)["id"] for l in open(os.path.join(VERIF, "properties.jsonl"))]
hooks = subprocess.run("git -C /repo log --format=%H --grep='^verif hook'", shell=True, text=True, capture_output=True).stdout.split()
engines = {}
for pid, P in PROPS.items():
    for j in P["jobs"]:
        e = P["engines"][j["engine"]]
        engines.setdefault(e["name"], {"name": e["name"], "path": "harness/" + e["sources"][0], "serves_properties": [], "kind_free_text": e.get("about", "")})
        if pid not in engines[e["name"]]["serves_properties"]:
            engines[e["name"]]["serves_properties"].append(pid)
checks = []
for pid in props:
    if pid not in PROPS:
        continue
    T = MANIFEST_TEXT[pid]
    checks.append({
        "property_id": pid,
        "quick_cmd": f"bin/check {pid} --tier quick",
        "thorough_cmd": f"bin/check {pid} --tier thorough",
        "evidence_file": f"evidence/{pid}.json",
        "replay_cmd_template": f"bin/check {pid} --replay {{path}}",
        "engine": ",".join(sorted({j['engine'] for j in PROPS[pid]['jobs']})),
        "level_claimed": {"category": "exploration", "text": T["level"], "design_ref": T.get("design_ref", "DESIGN.md section 4")},
        "level_note": T["note"],
        "technique": T["technique"],
    })
na = [{"property_id": p, "reason": NOT_APPLICABLE.get(p, "no check registered yet")} for p in props if p not in PROPS]
man = {
    "version": 1,
    "setup_cmd": "bin/build_lib.sh rel >/dev/null && bin/build_lib.sh asan >/dev/null && bin/build_lib.sh tsan >/dev/null",
    "hooks": {
        "guard": "CIMBA_VERIF",
        "enable": "bin/build_lib.sh compiles /repo/src with -DCIMBA_VERIF (by hand, meson recipe reproduced) into /verif/build/<flavour>-<hash>/libcimba.a",
        "baseline_off_cmd": "cd /repo && (test -d _build || meson setup _build) && meson test -C _build",
        "source_commits": hooks,
        "add_only": True,
    },
    "engines": sorted(engines.values(), key=lambda e: e["name"]),
    "checks": checks,
    "not_applicable": na,
    "notes": "Runtime monitoring only: every check runs the real library (built from /repo's working tree) under generated hostile workloads with monitors/sanitizers; see DESIGN.md. Exit 2 = inconclusive/harness failure.",
}
with open(os.path.join(VERIF, "MANIFEST.json"), "w") as f:
    json.dump(man, f, indent=1)
print("MANIFEST.json:", len(checks), "checks,", len(na), "not_applicable")
