#!/bin/bash
# seedrecheck.sh [seed dirs...] : re-confirm stored seeded changes against /repo's current HEAD in one scratch worktree:
#   the patch still applies, the patched tree builds, the demo passes without and fails with the patch.
cd /verif
W=/tmp/src.$$
git -C /repo worktree add -q --detach $W HEAD || exit 2
cd $W && meson setup _build >/dev/null 2>&1 && meson compile -C _build >/dev/null 2>&1 || { echo "BASE BUILD FAILED"; }
demo_run() { gcc -O1 -I include -I src "$1/demo.c" -L _build/src -lcimba -lm -lpthread -o /tmp/src_demo.$$ 2>/dev/null && LD_LIBRARY_PATH=_build/src timeout 120 /tmp/src_demo.$$ >/dev/null 2>&1; echo $?; }
for d in "${@:-/verif/seeded/*}"; do
  for D in $d; do
    [ -f $D/patch.diff ] || continue
    a=$(demo_run $D)
    if git apply $D/patch.diff 2>/dev/null; then ap=ok; elif patch -p1 -s --no-backup-if-mismatch < $D/patch.diff >/dev/null 2>&1; then ap=fuzzy; else ap=NO; fi
    if [ $ap != NO ] && meson compile -C _build >/dev/null 2>&1; then b=$(demo_run $D); else b=build-failed; fi
    echo "$(basename $D) applies=$ap demo_without=$a demo_with=$b"
    git checkout -q -- . ; git clean -qfd -e _build >/dev/null 2>&1
    meson compile -C _build >/dev/null 2>&1
  done
done
cd /; git -C /repo worktree remove --force $W; rm -f /tmp/src_demo.$$
