#!/bin/bash
# usage: build.sh <outdir> <cflags...>
set -e
OUT=$1; shift
R=/repo
mkdir -p $OUT/gen
gcc -O1 -o $OUT/gen/calc_exp $R/codegen/calc_exponential.c $R/codegen/calc_utils.c -lm
gcc -O1 -o $OUT/gen/calc_nor $R/codegen/calc_normal.c $R/codegen/calc_utils.c -lm
$OUT/gen/calc_exp > $OUT/gen/cmi_random_exp_zig.inc
$OUT/gen/calc_nor > $OUT/gen/cmi_random_nor_zig.inc
nasm -f elf64 $R/src/port/x86-64/linux/cmi_coroutine_context.asm -o $OUT/ctx.o
nasm -f elf64 $R/src/port/x86-64/linux/cmi_random_hwseed.asm -o $OUT/hwseed.o
for f in $R/src/*.c $R/src/port/x86-64/linux/*.c; do
  b=$(basename $f .c)
  gcc -std=c17 -D_POSIX_C_SOURCE=200809L -Wno-pedantic "$@" -I$R/src -I$R/include -I$OUT/gen -c $f -o $OUT/$b.o &
done
wait
ar rcs $OUT/libcimba.a $OUT/*.o
