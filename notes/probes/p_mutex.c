#include "p_common.h"
/* D13: release + immediate re-acquire while a waiter has a pending grant */
static struct cmb_resource *R; static int holders=0, maxholders=0;
static void *A(struct cmb_process *me, void *c){ (void)c;(void)me;
  for(int i=0;i<3;i++){ int64_t s=cmb_resource_acquire(R); if(s==0){holders++; if(holders>maxholders)maxholders=holders;
      printf("t=%g %s acquired holders=%d holder=%s\n",cmb_time(),me->name,holders,R->holder?R->holder->name:"-");
      cmb_process_hold(1.0); holders--; cmb_resource_release(R);} }
  return NULL; }
int main(void){ QUIET(); cmb_event_queue_initialize(0.0); R=cmb_resource_create(); cmb_resource_initialize(R,"R");
  mkproc("A",A,NULL,0); mkproc("B",A,NULL,0);
  cmb_event_queue_execute(); printf("max simultaneous holders=%d\n",maxholders); return 0; }
