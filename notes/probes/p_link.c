#include "p_common.h"
int main(void){ struct cmb_condition *c=cmb_condition_create(); cmb_condition_initialize(c,"c"); struct cmb_process *p=cmb_process_create(); return (int)cmb_condition_cancel(c,p)+(int)cmb_condition_remove(c,p); }
