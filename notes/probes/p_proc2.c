#include "p_common.h"
static void nop_end(void *s, void *o){(void)s;(void)o; extern struct cmb_resourcepool *Pg; }
static struct cmb_resource *R; static struct cmb_resourcepool *P; static struct cmb_process *X,*W1,*W2;
/* ---- D7: grant overtaken by a timeout in the same instant */
static void *Holder(struct cmb_process *me, void *c){(void)c;(void)me; cmb_resource_acquire(R); cmb_process_hold(5.0); cmb_resource_release(R); return NULL;}
static void *Wt(struct cmb_process *me, void *c){(void)c; cmb_process_hold(1.0); cmb_process_timer_add(me,4.0,CMB_PROCESS_TIMEOUT); /* fires at t=5, scheduled before the grant */
   int64_t s=cmb_resource_acquire(R); printf("D7: W1 acquire returned %ld at t=%g\n",(long)s,cmb_time()); double t0=cmb_time(); s=cmb_process_hold(50.0); printf("D7: W1 hold(50) from %g returned %ld at t=%g\n",t0,(long)s,cmb_time()); if(cmb_resource_held_by_process(R,me)) cmb_resource_release(R); return NULL;}
static void *Wn(struct cmb_process *me, void *c){(void)c;(void)me; cmb_process_hold(2.0); int64_t s=cmb_resource_acquire(R); printf("D7: W2 acquire returned %ld at t=%g\n",(long)s,cmb_time()); if(s==0)cmb_resource_release(R); return NULL;}
/* ---- D16: pool rollback without signal */
static void *PA(struct cmb_process *me, void *c){(void)c;(void)me; cmb_resourcepool_acquire(P,3); cmb_process_hold(100.0); cmb_resourcepool_release(P,3); return NULL;}   /* holds 3 of 5 */
static void *PB(struct cmb_process *me, void *c){(void)c;(void)me; cmb_process_hold(1.0); int64_t s=cmb_resourcepool_acquire(P,4); printf("D16: B acquire(4) returned %ld at t=%g holds %lu\n",(long)s,cmb_time(),(unsigned long)cmb_resourcepool_held_by_process(P,me)); cmb_process_hold(200.0); return NULL;} /* grabs 2, waits for 2 */
static void *PC(struct cmb_process *me, void *c){(void)c;(void)me; cmb_process_hold(2.0); int64_t s=cmb_resourcepool_acquire(P,1); printf("D16: C acquire(1) returned %ld at t=%g\n",(long)s,cmb_time()); return NULL;} /* waits behind B */
static void *PI(struct cmb_process *me, void *c){(void)c;(void)me; cmb_process_hold(3.0); cmb_process_interrupt(W1, CMB_PROCESS_INTERRUPTED, 0); return NULL;}
int main(int argc, char **argv){ QUIET(); int which=atoi(argv[1]); cmb_event_queue_initialize(0.0);
  if(which==7){ R=cmb_resource_create(); cmb_resource_initialize(R,"R"); X=mkproc("X",Holder,NULL,0); W1=mkproc("W1",Wt,NULL,0); W2=mkproc("W2",Wn,NULL,0); cmb_event_queue_execute(); printf("D7: end t=%g resource in_use=%lu, W2 status=%d (1=still blocked)\n",cmb_time(),(unsigned long)cmb_resource_in_use(R),(int)cmb_process_status(W2)); }
  if(which==16){ P=cmb_resourcepool_create(); cmb_resourcepool_initialize(P,"P",5); mkproc("A",PA,NULL,0); W1=mkproc("B",PB,NULL,0); W2=mkproc("C",PC,NULL,0); mkproc("I",PI,NULL,0);
     cmb_event_schedule((cmb_event_func*)nop_end,NULL,NULL,50.0,0); cmb_event_queue_execute(); }
  return 0; }
