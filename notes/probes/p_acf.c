#include "p_common.h"
int main(int argc,char**argv){ QUIET(); int which=atoi(argv[1]);
  struct cmb_dataset *d=cmb_dataset_create(); double acf[8];
  if(which==1){ double x[]={0,0,0,0,10,10,10,10,10,10}; for(int i=0;i<10;i++) cmb_dataset_add(d,x[i]); cmb_dataset_ACF(d,3,acf); printf("acf: %g %g %g %g\n",acf[0],acf[1],acf[2],acf[3]); cmb_dataset_correlogram_print(d,stdout,3,NULL); }
  if(which==2){ double s=atof(argv[2]); cmb_random_initialize(5); for(int i=0;i<200;i++){ static double prev=0; prev=0.7*prev+cmb_random_std_normal(); cmb_dataset_add(d,prev*s);} cmb_dataset_ACF(d,3,acf); printf("scale %g acf: %g %g %g %g\n",s,acf[0],acf[1],acf[2],acf[3]); }
  return 0; }
