#include "p_common.h"
static void nop(void *s, void *o){(void)s;(void)o;}
/* ---- D2: cmb_event_current after reschedule inside action */
static uint64_t hA,hB;
static void actA(void *s, void *o){(void)s;(void)o; uint64_t before=cmb_event_current(); cmb_event_reschedule(hB, 9.0); uint64_t after=cmb_event_current(); printf("D2: in action of %lu: current before=%lu after reschedule(other)=%lu\n",(unsigned long)hA,(unsigned long)before,(unsigned long)after);}
/* ---- D6: stop self */
static struct cmb_resource *R; static struct cmb_process *PS;
static void *Self(struct cmb_process *me, void *c){(void)c; cmb_resource_acquire(R); cmb_process_hold(1.0); cmb_process_stop(me,(void*)0x77); printf("D6: NOT REACHED\n"); return NULL;}
static void *WaitS(struct cmb_process *me, void *c){(void)c;(void)me; int64_t s=cmb_process_wait_process(PS); printf("D6: waiter got sig=%ld at t=%g\n",(long)s,cmb_time()); return NULL;}
/* ---- D4: stale wait_process registration after a timeout */
static struct cmb_process *PL;
static void *Long(struct cmb_process *me, void *c){(void)c;(void)me; cmb_process_hold(10.0); return NULL;}
static void *TW(struct cmb_process *me, void *c){(void)c; cmb_process_timer_add(me,5.0,CMB_PROCESS_TIMEOUT); int64_t s=cmb_process_wait_process(PL); printf("D4: wait_process returned %ld at t=%g\n",(long)s,cmb_time()); double t0=cmb_time(); s=cmb_process_hold(100.0); printf("D4: hold(100) from t=%g returned %ld at t=%g\n",t0,(long)s,cmb_time()); return NULL;}
int main(int argc, char **argv){ QUIET(); int which=atoi(argv[1]); cmb_event_queue_initialize(0.0);
  if(which==2){ hA=cmb_event_schedule(actA,NULL,NULL,1.0,0); hB=cmb_event_schedule(nop,NULL,NULL,2.0,0); cmb_event_queue_execute(); }
  if(which==6){ R=cmb_resource_create(); cmb_resource_initialize(R,"R"); PS=mkproc("S",Self,NULL,0); mkproc("W",WaitS,NULL,0); cmb_event_queue_execute(); printf("D6: after run: S status=%d exit=%p resource in_use=%lu\n",(int)cmb_process_status(PS),cmb_process_exit_value(PS),(unsigned long)cmb_resource_in_use(R)); }
  if(which==4){ PL=mkproc("L",Long,NULL,0); mkproc("TW",TW,NULL,0); cmb_event_queue_execute(); }
  return 0; }
