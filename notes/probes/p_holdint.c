#include "p_common.h"
/* D3: interrupt a holding process when nothing else is in the queue */
static struct cmb_process *PA;
static void *A(struct cmb_process *me, void *c){(void)c;(void)me; int64_t s=cmb_process_hold(10.0); printf("A hold returned %ld at t=%g\n",(long)s,cmb_time()); return NULL;}
static void *B(struct cmb_process *me, void *c){(void)c;(void)me; cmb_process_hold(5.0); cmb_process_interrupt(PA, CMB_PROCESS_INTERRUPTED, 0); return NULL;}
int main(void){ QUIET(); cmb_event_queue_initialize(0.0); PA=mkproc("A",A,NULL,0); mkproc("B",B,NULL,0); cmb_event_queue_execute(); printf("done\n"); return 0;}
