#include "p_common.h"
static void *w(struct cmb_process *me, void *c){(void)me;(void)c; for(int i=0;i<200000;i++) cmb_process_hold(1.0); return NULL;}
static void *shortp(struct cmb_process *me, void *c){(void)me;(void)c; cmb_process_hold(1.0); return NULL;}
static void run(void *v){ (void)v; cmb_logger_flags_off(CMB_LOGGER_INFO|CMB_LOGGER_WARNING); cmb_random_initialize(1); cmb_event_queue_initialize(0.0);
  struct cmb_process *p[4]; for(int i=0;i<4;i++){ p[i]=cmb_process_create(); cmb_process_initialize(p[i],"w",w,NULL,0); cmb_process_start(p[i]); }
  cmb_event_queue_execute();
  for(int k=0;k<20000;k++){ struct cmb_process *q=cmb_process_create(); cmb_process_initialize(q,"s",shortp,NULL,0); cmb_process_start(q); cmb_event_queue_execute(); cmb_process_terminate(q); cmb_process_destroy(q);} 
  cmb_event_queue_terminate(); }
int main(void){ static int t[4]; cimba_run_experiment(t,4,sizeof t[0],run); printf("ok\n"); return 0; }
