#include "p_common.h"
static struct cmb_condition *CV; static int flag=0; static struct cmb_process *W[5];
static bool pred(const struct cmb_condition *c,const struct cmb_process *p,const void *x){(void)c;(void)p;(void)x; return flag;}
static void *Wf(struct cmb_process *me, void *c){ double d=*(double*)c; cmb_process_hold(d); if(d==1.0){ cmb_process_timer_add(me,3.5,CMB_PROCESS_TIMEOUT);} int64_t s=cmb_condition_wait(CV,pred,NULL); printf("t=%g %s (entered %g) woke sig=%ld\n",cmb_time(),me->name,d,(long)s); return NULL;}
static void sig(void *s, void *o){(void)s;(void)o; flag=1; cmb_condition_signal(CV);}
/* pool double notification */
static struct cmb_resourcepool *P; static struct cmb_process *C;
static void *PC(struct cmb_process *me, void *c){(void)c;(void)me; cmb_resourcepool_acquire(P,3); int64_t s=cmb_resourcepool_acquire(P,2); printf("C second acquire returned %ld at t=%g holds=%lu\n",(long)s,cmb_time(),(unsigned long)cmb_resourcepool_held_by_process(P,me)); return NULL;}
static void *PO(struct cmb_process *me, void *c){(void)c;(void)me; cmb_resourcepool_acquire(P,2); cmb_process_hold(100); return NULL;}
static void *PP(struct cmb_process *me, void *c){(void)c;(void)me; cmb_process_hold(5.0); int64_t s=cmb_resourcepool_preempt(P,1); printf("preempt returned %ld\n",(long)s); cmb_process_interrupt(C, 42, 100); cmb_process_hold(100); return NULL;}
int main(int argc,char**argv){ QUIET(); int which=atoi(argv[1]); cmb_event_queue_initialize(0.0);
 if(which==1){ CV=cmb_condition_create(); cmb_condition_initialize(CV,"cv"); static double d[4]={1,2,3,4}; W[0]=mkproc("w1",Wf,&d[0],0); W[1]=mkproc("w2",Wf,&d[1],0); W[2]=mkproc("w3",Wf,&d[2],0); W[3]=mkproc("w4",Wf,&d[3],0); cmb_event_schedule(sig,NULL,NULL,10.0,0); cmb_event_queue_execute(); }
 if(which==2){ P=cmb_resourcepool_create(); cmb_resourcepool_initialize(P,"P",5); mkproc("O",PO,NULL,0); C=mkproc("C",PC,NULL,0); mkproc("PP",PP,NULL,9); cmb_event_queue_execute(); printf("done\n"); }
 return 0; }
