#include "p_common.h"
/* D1: nine processes waiting for one event, queue at capacity when it fires */
static uint64_t H; static int woken=0;
static void ev(void *s, void *o){(void)s;(void)o; printf("event action ran at t=%g\n",cmb_time());}
static void nop(void *s, void *o){(void)s;(void)o;}
static void filler(void *s, void *o){(void)s;(void)o; for(int i=0;i<15;i++) cmb_event_schedule(nop,NULL,NULL,6.0,0); printf("queue count now %lu\n",(unsigned long)cmb_event_queue_count());}
static void *W(struct cmb_process *me, void *c){(void)c;(void)me; int64_t s=cmb_process_wait_event(H); woken++; (void)s; return NULL;}
int main(int argc,char**argv){ QUIET(); int nw = argc>1?atoi(argv[1]):9; cmb_event_queue_initialize(0.0);
  H=cmb_event_schedule(ev,NULL,NULL,5.0,0);
  for(int i=0;i<nw;i++){char b[16];sprintf(b,"w%d",i);mkproc(b,W,NULL,0);}
  cmb_event_schedule(filler,NULL,NULL,1.0,0);
  cmb_event_queue_execute(); printf("woken=%d of %d\n",woken,nw); return 0;}
