#include "p_common.h"
/* D18: more than 63 chunks */
int main(void){ struct cmi_mempool *mp=cmi_mempool_create(); cmi_mempool_initialize(mp, 64, 64); /* 64*64=4096 = 1 page per chunk */
  size_t n=64*70; void **objs=malloc(n*sizeof(void*));
  for(size_t i=0;i<n;i++){ objs[i]=cmi_mempool_alloc(mp); memset(objs[i],(int)(i&0xff),64);} 
  printf("chunks=%lu\n",(unsigned long)mp->chunk_list_cnt);
  for(size_t i=0;i<n;i++){ unsigned char *p=objs[i]; for(int k=0;k<64;k++) if(p[k]!=(unsigned char)(i&0xff)){printf("corrupt obj %zu\n",i);return 1;} }
  cmi_mempool_destroy(mp); printf("ok\n"); return 0;}
