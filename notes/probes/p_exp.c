#include "p_common.h"
struct trial { uint64_t seed; int nproc; double result; uint64_t count; };
static struct cmb_resource *dummy;
struct ctx { struct cmb_resource *r; double *acc; uint64_t *cnt; };
static void *worker(struct cmb_process *me, void *c){ struct ctx *x=c; (void)me;
  for(int i=0;i<50;i++){ cmb_process_hold(cmb_random_exponential(1.0)); if(cmb_resource_acquire(x->r)==0){ cmb_process_hold(cmb_random_exponential(0.5)); *x->acc += cmb_time(); (*x->cnt)++; cmb_resource_release(x->r);} }
  return NULL; }
static void run(void *v){ struct trial *t=v; cmb_logger_flags_off(CMB_LOGGER_INFO|CMB_LOGGER_WARNING); cmb_random_initialize(t->seed); cmb_event_queue_initialize(0.0);
  struct cmb_resource *r=cmb_resource_create(); cmb_resource_initialize(r,"r"); double acc=0; uint64_t cnt=0; struct ctx x={r,&acc,&cnt};
  struct cmb_process *p[8]; for(int i=0;i<t->nproc;i++){ p[i]=cmb_process_create(); cmb_process_initialize(p[i],"w",worker,&x,0); cmb_process_start(p[i]); }
  cmb_event_queue_execute(); t->result=acc; t->count=cnt;
  for(int i=0;i<t->nproc;i++){ cmb_process_terminate(p[i]); cmb_process_destroy(p[i]); } cmb_resource_destroy(r); cmb_event_queue_terminate(); cmb_random_terminate(); }
int main(void){ enum {N=40}; static struct trial a[N], b[N]; for(int i=0;i<N;i++){ a[i].seed=b[i].seed=1000+i; a[i].nproc=b[i].nproc=3+i%5; }
  for(int i=0;i<N;i++) run(&b[i]);              /* sequential reference in main thread */
  cimba_run_experiment(a,N,sizeof a[0],run);
  int diff=0; for(int i=0;i<N;i++) if(memcmp(&a[i].result,&b[i].result,8)||a[i].count!=b[i].count){diff++; printf("trial %d differs: %.17g/%lu vs %.17g/%lu\n",i,a[i].result,(unsigned long)a[i].count,b[i].result,(unsigned long)b[i].count);} printf("diffs=%d\n",diff); return 0; }
