#include "p_common.h"
int main(void){ QUIET();
  /* D19 flip after reseed */
  cmb_random_initialize(42); int a[8]; for(int i=0;i<8;i++) a[i]=cmb_random_flip();
  cmb_random_initialize(7); for(int i=0;i<5;i++) cmb_random_flip();   /* pollute: partially consumed cache */
  cmb_random_initialize(42); int b[8]; for(int i=0;i<8;i++) b[i]=cmb_random_flip();
  printf("flip fresh : "); for(int i=0;i<8;i++) printf("%d",a[i]); printf("\nflip reseed: "); for(int i=0;i<8;i++) printf("%d",b[i]); printf("\n");
  /* D21 loaded dice */
  double p[3]={0.3333,0.3333,0.3329}; /* sums to 0.9995 */
  cmb_random_initialize(1); unsigned bad=0; for(int i=0;i<200000;i++){ unsigned k=cmb_random_loaded_dice(3,p); if(k>=3) bad++; } printf("loaded_dice out-of-range draws: %u / 200000\n",bad);
  /* D20 geometric p=1 */
  printf("geometric(1.0) = %u ; negative_binomial(3,1.0) = %u\n", cmb_random_geometric(1.0), cmb_random_negative_binomial(3,1.0));
  /* D22 std_beta small shapes */
  int nan=0, oob=0; double s=0; for(int i=0;i<100000;i++){ double x=cmb_random_std_beta(0.2,0.5); if(isnan(x)) nan++; else if(x<0||x>1) oob++; else s+=x;} printf("std_beta(0.2,0.5): nan=%d oob=%d mean(valid)=%g (theory %g)\n",nan,oob,s/(100000-nan-oob),0.2/0.7);
  s=0; for(int i=0;i<400000;i++){ s+=cmb_random_std_beta(0.5,0.5);} printf("std_beta(0.5,0.5) mean=%g (theory 0.5); ", s/400000);
  { double v=0; int N=400000; double m=0; for(int i=0;i<N;i++){double x=cmb_random_std_beta(0.5,0.5); m+=x; v+=x*x;} m/=N; v=v/N-m*m; printf("var=%g (theory %g)\n", v, 0.25/2.0/ (1.0)); /* ab/((a+b)^2(a+b+1)) = .25/(1*2)=.125 */ }
  /* D24 weighted variance scale */
  struct cmb_wtdsummary w1,w2; cmb_wtdsummary_initialize(&w1); cmb_wtdsummary_initialize(&w2);
  double xs[5]={1,2,4,8,16}, ws[5]={1,2,1,3,1}; for(int i=0;i<5;i++){cmb_wtdsummary_add(&w1,xs[i],ws[i]); cmb_wtdsummary_add(&w2,xs[i],10*ws[i]);}
  printf("wtd var w: %g  10w: %g ; skew %g vs %g ; kurt %g vs %g\n",cmb_wtdsummary_variance(&w1),cmb_wtdsummary_variance(&w2),cmb_wtdsummary_skewness(&w1),cmb_wtdsummary_skewness(&w2),cmb_wtdsummary_kurtosis(&w1),cmb_wtdsummary_kurtosis(&w2));
  /* D23 merge of two empties then add */
  struct cmb_datasummary e1,e2,t; cmb_datasummary_initialize(&e1); cmb_datasummary_initialize(&e2); cmb_datasummary_merge(&t,&e1,&e2); cmb_datasummary_add(&t,3.0); cmb_datasummary_add(&t,5.0); printf("merge(empty,empty)+{3,5}: mean=%g\n",cmb_datasummary_mean(&t));
  /* D29 weighted median */
  struct cmb_timeseries *ts=cmb_timeseries_create(); cmb_timeseries_add(ts,5.0,0.0); cmb_timeseries_add(ts,6.0,9.0); cmb_timeseries_add(ts,5.0,10.0); cmb_timeseries_finalize(ts,10.0);
  printf("ts median (x=5 for 9, x=6 for 1): %g\n", cmb_timeseries_median(ts));
  struct cmb_timeseries *t2=cmb_timeseries_create(); cmb_timeseries_add(t2,0.0,0.0); cmb_timeseries_add(t2,1.0,1.0); cmb_timeseries_finalize(t2,10.0);
  printf("ts median (x=0 for 1, x=1 for 9): %g\n", cmb_timeseries_median(t2)); cmb_timeseries_fivenum_print(ts, stdout, true);
  return 0; }
