#include <stdio.h>
#include <stdlib.h>
#include <string.h>
#include <inttypes.h>
#include <math.h>
#include "cimba.h"
#include "cmb_priorityqueue.h"
#include "cmi_hashheap.h"
#include "cmi_mempool.h"
#include "cmi_dataset.h"
#define QUIET() cmb_logger_flags_off(CMB_LOGGER_INFO|CMB_LOGGER_WARNING)
static struct cmb_process *mkproc(const char *n, cmb_process_func f, void *ctx, int64_t pri){
  struct cmb_process *p = cmb_process_create(); cmb_process_initialize(p,n,f,ctx,pri); cmb_process_start(p); return p; }
