#include "/verif/notes/probes/p_common.h"
/* D34: awaited event executes and the waiter is interrupted in the same instant (interrupt runs before the waiter's wake-up) */
static uint64_t H; static struct cmb_process *W; static void ev(void *s, void *o);
static void ev(void *s, void *o){(void)s;(void)o; cmb_process_interrupt(W, CMB_PROCESS_INTERRUPTED, 100);}
static void *Wf(struct cmb_process *me, void *c){(void)c;(void)me; int64_t s=cmb_process_wait_event(H); printf("W wait_event returned %ld at t=%g\n",(long)s,cmb_time()); return NULL;}

int main(void){ QUIET(); cmb_event_queue_initialize(0.0); W=mkproc("W",Wf,NULL,0); 
  H=cmb_event_schedule(ev,NULL,NULL,5.0,10); /* at t=5: I's hold wake-up (prio 50) runs first, schedules interrupt prio 100; then... */
  cmb_event_queue_execute(); printf("done\n"); return 0; }
