#include "p_common.h"
static struct cmb_resourcepool *P; static struct cmb_process *B,*C;
static void *PA(struct cmb_process *me, void *c){(void)c;(void)me; cmb_resourcepool_acquire(P,3); cmb_process_hold(100.0); return NULL;}
static void *PB(struct cmb_process *me, void *c){(void)c;(void)me; cmb_process_hold(1.0); int64_t s=cmb_resourcepool_acquire(P,4); printf("D16: B acquire(4) returned %ld at t=%g holds %lu\n",(long)s,cmb_time(),(unsigned long)cmb_resourcepool_held_by_process(P,me)); cmb_process_hold(200.0); return NULL;}
static void *PC(struct cmb_process *me, void *c){(void)c;(void)me; cmb_process_hold(2.0); int64_t s=cmb_resourcepool_acquire(P,1); printf("D16: C acquire(1) returned %ld at t=%g\n",(long)s,cmb_time()); cmb_process_hold(200.0); return NULL;}
static void *PI(struct cmb_process *me, void *c){(void)c;(void)me; cmb_process_hold(3.0); cmb_process_interrupt(B, CMB_PROCESS_INTERRUPTED, 0); return NULL;}
static void chk(void *s, void *o){(void)s;(void)o; printf("D16: t=%g in_use=%lu available=%lu, C still waiting in guard=%d\n",cmb_time(),(unsigned long)cmb_resourcepool_in_use(P),(unsigned long)cmb_resourcepool_available(P),(int)cmi_hashheap_is_enqueued((struct cmi_hashheap*)&P->guard,(uint64_t)C)); 
  struct cmb_timeseries *h=cmb_resourcepool_get_history(P); cmb_timeseries_print(h,stdout); cmb_event_queue_clear(); }
/* D15: holder stopped -> drop -> no sample */
static struct cmb_process *A;
static void stopA(void *s, void *o){(void)s;(void)o; cmb_process_stop(A,NULL);}
int main(int argc, char **argv){ QUIET(); int which=atoi(argv[1]); cmb_event_queue_initialize(0.0);
  P=cmb_resourcepool_create(); cmb_resourcepool_initialize(P,"P",5); cmb_resourcepool_start_recording(P);
  if(which==16){ mkproc("A",PA,NULL,0); B=mkproc("B",PB,NULL,0); C=mkproc("C",PC,NULL,0); mkproc("I",PI,NULL,0); cmb_event_schedule(chk,NULL,NULL,50.0,0); cmb_event_queue_execute(); }
  if(which==15){ A=mkproc("A",PA,NULL,0); C=A; cmb_event_schedule(stopA,NULL,NULL,10.0,0); cmb_event_schedule(chk,NULL,NULL,50.0,0); cmb_event_queue_execute(); }
  return 0; }
