#include "p_common.h"
/* D8: guard order: low-prio early waiter vs high-prio later waiter */
static struct cmb_resource *R;
static void *H(struct cmb_process *me, void *c){(void)c;(void)me; cmb_resource_acquire(R); cmb_process_hold(10.0); cmb_resource_release(R); return NULL;}
static void *W(struct cmb_process *me, void *c){ double d=*(double*)c; cmb_process_hold(d); int64_t s=cmb_resource_acquire(R); printf("t=%g %s (pri %ld) acquired sig=%ld\n",cmb_time(),me->name,(long)me->priority,(long)s); cmb_process_hold(1.0); cmb_resource_release(R); return NULL;}
int main(void){ QUIET(); cmb_event_queue_initialize(0.0); R=cmb_resource_create(); cmb_resource_initialize(R,"R");
  static double d[6]={1,2,3,4,5,6}; mkproc("H",H,NULL,0);
  mkproc("w1_lo",W,&d[0],1); mkproc("w2_hi",W,&d[1],5); mkproc("w3_lo",W,&d[2],1); mkproc("w4_hi",W,&d[3],5); mkproc("w5_mid",W,&d[4],3); mkproc("w6_hi",W,&d[5],5);
  cmb_event_queue_execute(); return 0;}
