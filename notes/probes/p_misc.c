#include "p_common.h"
static struct cmb_resource *R; static struct cmb_condition *CV; static int flagA=0, flagB=0;
static bool predA(const struct cmb_condition *c,const struct cmb_process *p,const void *x){(void)c;(void)p;(void)x; return flagA;}
static bool predB(const struct cmb_condition *c,const struct cmb_process *p,const void *x){(void)c;(void)p;(void)x; return flagB;}
static void *CA(struct cmb_process *me, void *c){(void)c;(void)me; int64_t s=cmb_condition_wait(CV,predA,NULL); printf("D9: A (pred false at signal) woke sig=%ld t=%g\n",(long)s,cmb_time()); return NULL;}
static void *CB(struct cmb_process *me, void *c){(void)c;(void)me; cmb_process_hold(0.5); int64_t s=cmb_condition_wait(CV,predB,NULL); printf("D9: B woke sig=%ld t=%g\n",(long)s,cmb_time()); return NULL;}
static void *RH(struct cmb_process *me, void *c){(void)c;(void)me; cmb_resource_acquire(R); cmb_process_hold(2.0); flagB=1; cmb_resource_release(R); /* forwarded signal */ return NULL;}
/* D14 preempt cancels caller's timers */
static void *V(struct cmb_process *me, void *c){(void)c;(void)me; cmb_resource_acquire(R); int64_t s=cmb_process_hold(100.0); printf("D14: victim hold returned %ld at t=%g\n",(long)s,cmb_time()); return NULL;}
static void *Pr(struct cmb_process *me, void *c){(void)c; cmb_process_hold(1.0); cmb_process_timer_add(me,5.0,CMB_PROCESS_TIMEOUT); int64_t s=cmb_resource_preempt(R); printf("D14: preempt returned %ld\n",(long)s); s=cmb_process_hold(50.0); printf("D14: preemptor hold(50) from t=1 with timer at t=6 returned %ld at t=%g (expected -5 at 6)\n",(long)s,cmb_time()); return NULL;}
/* D10 priority_set in grant window */
static struct cmb_process *Wp;
static void *H10(struct cmb_process *me, void *c){(void)c;(void)me; cmb_resource_acquire(R); cmb_process_hold(2.0); cmb_resource_release(R); cmb_process_priority_set(Wp, 7); printf("D10: survived priority_set in grant window\n"); return NULL;}
static void *W10(struct cmb_process *me, void *c){(void)c;(void)me; cmb_process_hold(1.0); cmb_resource_acquire(R); return NULL;}
int main(int argc, char **argv){ QUIET(); int which=atoi(argv[1]); cmb_event_queue_initialize(0.0); R=cmb_resource_create(); cmb_resource_initialize(R,"R");
  if(which==9){ CV=cmb_condition_create(); cmb_condition_initialize(CV,"cv"); cmb_resourceguard_register(&R->guard,&CV->guard); mkproc("A",CA,NULL,0); mkproc("B",CB,NULL,0); mkproc("H",RH,NULL,0); cmb_event_queue_execute(); printf("D9: end t=%g, waiters left in condition=%lu\n",cmb_time(),(unsigned long)CV->guard.priority_queue.heap_count); }
  if(which==14){ mkproc("V",V,NULL,0); mkproc("P",Pr,NULL,5); cmb_event_queue_execute(); }
  if(which==10){ mkproc("H",H10,NULL,0); Wp=mkproc("W",W10,NULL,0); cmb_event_queue_execute(); }
  if(which==28){ struct cmb_timeseries *a=cmb_timeseries_create(); for(int i=0;i<5;i++) cmb_timeseries_add(a,i,i); struct cmb_timeseries b; memset(&b,0,sizeof b); cmb_timeseries_copy(&b,a); for(int i=5;i<40;i++) cmb_timeseries_add(&b,i,i); printf("D28: copy then add ok count=%lu\n",(unsigned long)cmb_timeseries_count(&b)); }
  if(which==25){ struct cmb_dataset *d=cmb_dataset_create(); cmb_dataset_add(d,3.0); cmb_dataset_fivenum_print(d,stdout,true); }
  if(which==17){ struct cmb_priorityqueue *q=cmb_priorityqueue_create(); cmb_priorityqueue_initialize(q,"q",2); cmb_priorityqueue_recording_start(q); uint64_t h1,h2; /* from main: put does not block when space */
       (void)h1;(void)h2; printf("D17 needs processes; see reading\n"); }
  return 0; }
