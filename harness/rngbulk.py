#!/usr/bin/env python3
"""rngbulk.py - high-volume goodness-of-fit of the table-driven samplers (property C16).

The C program rngbulk draws N values per sampler on all cores and returns counts in equal-width bins (1/128) of the
standardised variate. This script knows the distributions (scipy) and judges the counts:
  support      no NaN, no negative exponential variate
  chi2-fine    all bins (merged from the ends until 200 are expected)
  chi2-coarse  groups of 16 bins
  head-k       mass below k/128 for the first bins (the cap of the ziggurat lives there), exact binomial
  tail-t       mass beyond t (each side for the normal), exact binomial: a truncated or thinned tail
Two-stage rule: a test with p < 1e-6 is repeated on an independent seed with the same N; it is a violation only if the
same test fails again with p < 1e-6 (about 80 tests per run: false alarm probability < 1e-10 per run).
"""
import argparse, json, subprocess, sys
import numpy as np
from scipy import stats

P1 = 1e-6
SAMPLERS = [("std_exponential", []), ("exponential", ["2.5"]), ("std_normal", []), ("normal", ["1.5", "0.25"]),
            # integer-valued samplers (one bin per value); draws are divided by the cost factor in the third field
            ("alias", ["7", "0.05", "0.3", "0.0", "0.15", "0.25", "0.2", "0.05"], 1), ("alias", ["3", "0.999", "0.0005", "0.0005"], 1),
            ("loaded_dice", ["5", "0.1", "0.2", "0.3", "0.25", "0.15"], 2), ("dice", ["-3", "3"], 1), ("dice", ["0", "999"], 1),
            ("flip", [], 1), ("bernoulli", ["0.3"], 1), ("geometric", ["0.3"], 2), ("geometric", ["0.01"], 2),
            ("poisson", ["3.5"], 8), ("binomial", ["20", "0.35"], 8)]


def pmf_of(s, p):
    """(offset subtracted by the C side, probability vector over bin values 0..)"""
    f = [float(x) for x in p]
    if s in ("alias", "loaded_dice"):
        return np.array(f[1:])
    if s == "dice":
        n = int(f[1]) - int(f[0]) + 1; return np.full(n, 1.0 / n)
    if s == "flip":
        return np.array([0.5, 0.5])
    if s == "bernoulli":
        return np.array([1 - f[0], f[0]])
    k = np.arange(3072)
    if s == "geometric":
        return stats.geom.pmf(k, f[0])           # support 1, 2, ...: bin 0 must stay empty
    if s == "poisson":
        return stats.poisson.pmf(k, f[0])
    return stats.binom.pmf(k, int(f[0]), f[1])


def tests_discrete(d, s, p):
    n = d["draws"]; cnt = np.array(d["counts"], dtype=np.float64); pr = pmf_of(s, p)
    pr = np.concatenate([pr, np.zeros(len(cnt) - len(pr))]) if len(pr) < len(cnt) else pr[:len(cnt)]
    out = []
    imp = int(cnt[pr == 0].sum()) + d["below"] + (d["above"] if pr.sum() > 1 - 1e-15 else 0)
    out.append(("support", 0.0 if imp else 1.0, f"{imp} draws on values of probability zero (min {d['min']:.0f} max {d['max']:.0f})"))
    e = pr * n; keep = e > 0
    c, e = cnt[keep], e[keep]
    # merge the thin upper tail
    while len(e) > 2 and e[-1] < 200: e[-2] += e[-1]; c[-2] += c[-1]; e, c = e[:-1], c[:-1]
    rest = n - e.sum()
    if rest > 1e-6 * n or d["above"]: e = np.append(e, max(rest, 1e-300)); c = np.append(c, n - c.sum())
    st = float(((c - e) ** 2 / e).sum()); df = len(c) - 1
    out.append(("chi2", float(stats.chi2.sf(st, df)) if df > 0 else 1.0, f"chi2={st:.1f} df={df}"))
    idx = np.flatnonzero(keep)
    for j in range(min(len(idx), 12)):
        v = idx[j]; out.append((f"value-{v}", binom_p(int(cnt[v]), n, float(pr[v])), f"value {v}: {int(cnt[v])} seen, {pr[v] * n:.1f} expected"))
    return out


def h64(*xs):
    """deterministic 64-bit mix of the arguments' text (not Python's per-process salted hash)"""
    z = 0xcbf29ce484222325
    for ch in "|".join(str(x) for x in xs).encode():
        z = ((z ^ ch) * 0x100000001b3) & 0xffffffffffffffff
    z ^= z >> 29; z = (z * 0xbf58476d1ce4e5b9) & 0xffffffffffffffff; z ^= z >> 32
    return z


def draw(exe, seed, nper, threads, s, p):
    r = subprocess.run([exe, str(seed), str(nper), str(threads), s] + p, capture_output=True, text=True, timeout=3000)
    if r.returncode != 0:
        return None, f"rngbulk exit {r.returncode}: {r.stderr[-300:]}"
    return json.loads(r.stdout), None


def binom_p(k, n, p):
    """two-sided exact binomial p-value (doubling the smaller tail)"""
    if p <= 0.0:
        return 0.0 if k > 0 else 1.0
    lo = stats.binom.cdf(k, n, p); hi = stats.binom.sf(k - 1, n, p)
    return float(min(1.0, 2.0 * min(lo, hi)))


def tests(d):
    normal = d["sampler"] in ("std_normal", "normal")
    n = d["draws"]; cnt = np.array(d["counts"], dtype=np.float64)
    nb = len(cnt); edges = np.arange(nb + 1) / d["per_unit"] - d["offset"]
    if normal:
        half = nb // 2
        cdf = stats.norm.cdf(edges[:half + 1]); sf = stats.norm.sf(edges[half:])
        pr = np.concatenate([np.diff(cdf), -np.diff(sf)])
        p_below = float(stats.norm.cdf(edges[0])); p_above = float(stats.norm.sf(edges[-1]))
    else:
        sf = np.exp(-edges); pr = -np.diff(sf); p_below = 0.0; p_above = float(sf[-1])
    out = []
    # support
    bad = d["nan"] + (0 if normal else d["below"])
    out.append(("support", 0.0 if bad else 1.0, f"nan={d['nan']} below={d['below']} min={d['min']!r} max={d['max']!r}"))
    # chi-square, fine and coarse
    def chi2(c, p, label, extra_lo, extra_hi):
        c = c.copy(); e = p * n
        c[0] += extra_lo[0]; e[0] += extra_lo[1] * n; c[-1] += extra_hi[0]; e[-1] += extra_hi[1] * n
        lo, hi = 0, len(c)
        while hi - lo > 2 and e[lo] < 200: e[lo + 1] += e[lo]; c[lo + 1] += c[lo]; lo += 1
        while hi - lo > 2 and e[hi - 1] < 200: e[hi - 2] += e[hi - 1]; c[hi - 2] += c[hi - 1]; hi -= 1
        c, e = c[lo:hi], e[lo:hi]
        st = float(((c - e) ** 2 / e).sum()); df = len(c) - 1
        out.append((label, float(stats.chi2.sf(st, df)), f"chi2={st:.1f} df={df}"))
    chi2(cnt, pr, "chi2-fine", (d["below"], p_below), (d["above"], p_above))
    chi2(cnt.reshape(-1, 16).sum(axis=1), pr.reshape(-1, 16).sum(axis=1), "chi2-coarse", (d["below"], p_below), (d["above"], p_above))
    # head of the exponential / centre of the normal: cumulative mass in the first bins
    if normal:
        c0 = nb // 2
        for k in (1, 2, 4, 8, 16, 32):
            kk = int(cnt[c0 - k:c0 + k].sum()); pp = float(pr[c0 - k:c0 + k].sum())
            out.append((f"centre-{k}", binom_p(kk, n, pp), f"|x|<{k}/128: {kk} seen, {pp * n:.1f} expected"))
    else:
        for k in (1, 2, 3, 4, 6, 8, 12, 16, 24, 32, 64):
            kk = int(cnt[:k].sum()); pp = float(pr[:k].sum())
            out.append((f"head-{k}", binom_p(kk, n, pp), f"x<{k}/128: {kk} seen, {pp * n:.1f} expected"))
    # tails
    if normal:
        for t in (2, 3, 4, 5, 6):
            i = int((t + d["offset"]) * d["per_unit"]); j = int((-t + d["offset"]) * d["per_unit"])
            ku = int(cnt[i:].sum()) + d["above"]; kl = int(cnt[:j].sum()) + d["below"]; pp = float(stats.norm.sf(t))
            out.append((f"tail+{t}", binom_p(ku, n, pp), f"x>={t}: {ku} seen, {pp * n:.1f} expected"))
            out.append((f"tail-{t}", binom_p(kl, n, pp), f"x<-{t}: {kl} seen, {pp * n:.1f} expected"))
    else:
        for t in (2, 4, 6, 7, 8, 9, 10, 12, 14, 16, 18, 20):
            i = int(t * d["per_unit"]); ku = int(cnt[i:].sum()) + d["above"]; pp = float(np.exp(-t))
            out.append((f"tail-{t}", binom_p(ku, n, pp), f"x>={t}: {ku} seen, {pp * n:.1f} expected"))
    return out


def main():
    ap = argparse.ArgumentParser()
    ap.add_argument("--exe", required=True); ap.add_argument("--seed", type=int, default=1)
    ap.add_argument("--tier", default="quick"); ap.add_argument("--jobs", type=int, default=16)
    ap.add_argument("--only"); ap.add_argument("--nper", type=float)
    a = ap.parse_args()
    nper = int(a.nper) if a.nper else (125_000_000 if a.tier == "quick" else 2_000_000_000)
    viol, counters, fps, samples = [], {}, [], []
    for i, ent in enumerate(SAMPLERS):
        s, p = ent[0], ent[1]; disc = len(ent) > 2
        if a.only and a.only != s:
            continue
        label = f"{s}({','.join(p)})"
        nper_i = nper // (4 * ent[2]) if disc else nper
        tests_i = (lambda dd, s=s, p=p: tests_discrete(dd, s, p)) if disc else tests
        d, err = draw(a.exe, h64(a.seed, i, 1), nper_i, a.jobs, s, p)
        if d is None:
            viol.append({"key": f"C16/sampler-crash/{label}", "count": 1, "case": i, "detail": err}); continue
        ts = tests_i(d)
        counters["bulk_draws"] = counters.get("bulk_draws", 0) + d["draws"]
        counters["bulk_tests"] = counters.get("bulk_tests", 0) + len(ts)
        counters["bulk_samplers"] = counters.get("bulk_samplers", 0) + 1
        worst = min(ts, key=lambda t: t[1])
        counters["bulk_worst_p_ppm_" + s] = min(counters.get("bulk_worst_p_ppm_" + s, 10**6), int(worst[1] * 1e6))
        samples.append(f"{label}: {d['draws']} draws, max {d['max']:.3f}, {len(ts)} tests, worst {worst[0]} p={worst[1]:.3g} ({worst[2]})")
        fps.append("+%016x" % h64(label, a.tier))
        failing = [t for t in ts if t[1] < P1]
        if failing:
            counters["bulk_stage2_reruns"] = counters.get("bulk_stage2_reruns", 0) + 1
            d2, err = draw(a.exe, h64(a.seed, i, 2), nper_i, a.jobs, s, p)
            if d2 is None:
                viol.append({"key": f"C16/sampler-crash/{label}", "count": 1, "case": i, "detail": err}); continue
            counters["bulk_draws"] += d2["draws"]
            t2 = {t[0]: t for t in tests_i(d2)}
            for name, p1, info in failing:
                if t2[name][1] < P1:
                    key = f"C16/support/{label}" if name == "support" else f"C16/bulk/{label}/{name}"
                    viol.append({"key": key, "count": 1, "case": i,
                                 "detail": f"{d['draws']} draws: {info} (p={p1:.3g}); independent repeat: {t2[name][2]} (p={t2[name][1]:.3g})"})
    ncase = len([1 for e in SAMPLERS if not a.only or a.only == e[0]])
    print(json.dumps({"seed": a.seed, "from": 0, "to": ncase, "profile": 0, "cases": ncase,
                      "violating_cases": len({v['case'] for v in viol}), "abnormal": 0, "inconclusive": 0,
                      "nontrivial": ncase, "counters": counters, "violations": viol, "samples": samples,
                      "inconclusive_first": "", "fingerprints": fps}))


if __name__ == "__main__":
    main()
