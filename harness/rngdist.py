#!/usr/bin/env python3
"""rngdist.py - support and goodness-of-fit monitor for every sampler (C16).

Invoked by bin/check as a 'script' job:  python3-vt rngdist.py --exe <rngsamp> --seed S --tier T --jobs N
Prints one JSON line in the same schema as the vr.h runner.

Verdict rule (DESIGN.md C16): a support violation is a violation at once.  A fit
statistic with p < 1e-5 triggers a second, independent, 4x larger sample; only
p < 1e-7 there is a violation (product < 1e-12 under H0).
"""
import sys, json, argparse, subprocess, hashlib, math, concurrent.futures as cf
import numpy as np
from scipy import stats, special

P1, P2 = 1e-5, 1e-7


def h64(*a):
    return int.from_bytes(hashlib.sha256(repr(a).encode()).digest()[:8], "little")


def draw(exe, seed, n, sampler, params):
    args = [exe, str(seed), str(n), sampler] + [repr(float(x)) for x in params]
    r = subprocess.run(args, capture_output=True)
    if r.returncode != 0:
        return None, f"sampler process ended with status {r.returncode}: {r.stderr[-300:].decode(errors='replace')}"
    return np.frombuffer(r.stdout, dtype=np.float64), None


# ---------------------------------------------------------------- references
class HypoExp:
    def __init__(self, means):
        self.lam = 1.0 / np.array(means, float)
        self.means = np.array(means, float)
    def cdf(self, x):
        lam = self.lam
        x = np.asarray(x, float)
        out = np.ones_like(x)
        for i, li in enumerate(lam):
            c = 1.0
            for j, lj in enumerate(lam):
                if j != i:
                    c *= lj / (lj - li)
            out = out - c * np.exp(-li * np.maximum(x, 0))
        return np.where(x <= 0, 0.0, out)
    def mean(self): return float(self.means.sum())
    def var(self): return float((self.means ** 2).sum())


class HyperExp:
    def __init__(self, means, probs):
        self.m = np.array(means, float); self.p = np.array(probs, float) / sum(probs)
    def cdf(self, x):
        x = np.asarray(x, float)
        out = np.zeros_like(x)
        for m, p in zip(self.m, self.p):
            out = out + p * (1 - np.exp(-np.maximum(x, 0) / m))
        return out
    def mean(self): return float((self.p * self.m).sum())
    def var(self): return float((self.p * 2 * self.m ** 2).sum() - self.mean() ** 2)


def vec(*v): return [len(v)] + list(v)


def grid():
    """(sampler, params, kind, reference, lo, hi, note).  kind: 'c' continuous, 'd' discrete, 's' support only."""
    G = []
    inf = math.inf
    def C(s, p, ref, lo=-inf, hi=inf, mom=True): G.append(dict(s=s, p=p, kind="c", ref=ref, lo=lo, hi=hi, mom=mom))
    def D(s, p, ref, lo=0, hi=inf, only=None, zeros=None): G.append(dict(s=s, p=p, kind="d", ref=ref, lo=lo, hi=hi, only=only, zeros=zeros))
    def S(s, p, lo, hi, integer=False): G.append(dict(s=s, p=p, kind="s", ref=None, lo=lo, hi=hi, integer=integer))
    C("random", [], stats.uniform(0, 1), 0, 1)
    C("uniform", [-3, 5], stats.uniform(-3, 8), -3, 5)
    C("uniform", [1.0, 1.0 + 1e-12], stats.uniform(1.0, 1e-12), 1.0, 1.0 + 1e-12, mom=False)
    C("uniform", [-1e300, 1e300], stats.uniform(-1e300, 2e300), -1e300, 1e300, mom=False)
    C("triangular", [1, 2, 4], stats.triang(1 / 3, 1, 3), 1, 4)
    C("triangular", [0, 0, 1], stats.triang(0, 0, 1), 0, 1)
    C("triangular", [0, 1, 1], stats.triang(1, 0, 1), 0, 1)
    C("std_normal", [], stats.norm())
    C("normal", [100, 1e-3], stats.norm(100, 1e-3))
    C("normal", [-5, 50], stats.norm(-5, 50))
    C("lognormal", [0, 0.5], stats.lognorm(0.5), 0)
    C("lognormal", [1, 1.5], stats.lognorm(1.5, scale=math.e), 0, mom=False)
    C("logistic", [0, 1], stats.logistic())
    C("logistic", [3, 0.2], stats.logistic(3, 0.2))
    C("cauchy", [0, 1], stats.cauchy(), mom=False)
    C("cauchy", [5, 0.1], stats.cauchy(5, 0.1), mom=False)
    C("std_exponential", [], stats.expon(), 0)
    C("exponential", [0.01], stats.expon(scale=0.01), 0)
    C("exponential", [1000], stats.expon(scale=1000), 0)
    C("erlang", [1, 1], stats.gamma(1), 0)
    C("erlang", [3, 0.5], stats.gamma(3, scale=0.5), 0)
    C("erlang", [20, 2], stats.gamma(20, scale=2), 0)
    C("hypoexponential", vec(1, 2, 3), HypoExp([1, 2, 3]), 0)
    C("hypoexponential", vec(0.1, 5), HypoExp([0.1, 5]), 0)
    C("hypoexponential", vec(2.0), stats.expon(scale=2.0), 0)
    C("hyperexponential", vec(1, 5) + [0.5, 0.5], HyperExp([1, 5], [0.5, 0.5]), 0)
    C("hyperexponential", vec(0.1, 1, 10) + [0.2, 0.3, 0.5], HyperExp([0.1, 1, 10], [0.2, 0.3, 0.5]), 0)
    C("hyperexponential", vec(1, 5) + [1.0, 0.0], stats.expon(scale=1.0), 0)
    for a in (0.05, 0.2, 0.5, 1.0, 3.0, 50.0):
        C("std_gamma", [a], stats.gamma(a), 0)
    for a, sc in ((0.05, 1), (0.2, 2), (0.5, 1), (1, 3), (3, 0.5), (50, 1)):
        C("gamma", [a, sc], stats.gamma(a, scale=sc), 0)
    for a, b in ((0.2, 0.2), (0.5, 0.5), (0.5, 3), (3, 0.5), (1, 1), (2, 5), (50, 50), (0.05, 1)):
        C("std_beta", [a, b], stats.beta(a, b), 0, 1)
    # both shapes below one and unequal (the ratio is formed from logarithms there). Not smaller than 0.3: beta(a, b) has the mass
    # (2^-53)^b within half an ulp of 1, which a double can only report as 1.0 - an atom the continuous reference does not have
    for a, b in ((0.3, 0.7), (0.6, 0.4), (0.9, 0.3), (0.35, 0.35)):
        C("std_beta", [a, b], stats.beta(a, b), 0, 1)
    # shape pairs that differ by exactly one, both orders (internal state shared between consecutive gamma draws)
    for a, b in ((1.5, 0.5), (0.5, 1.5), (1.25, 0.25), (1.9, 0.9), (2.0, 1.0), (1.0, 2.0)):
        C("std_beta", [a, b], stats.beta(a, b), 0, 1)
    # ... and one gamma shape sampled right after another one, every time
    for first, a in ((1.5, 0.5), (0.5, 1.5), (1.25, 0.25), (2.0, 1.0), (3.0, 2.0), (1.0 + 2.0 ** -52, 1.0)):
        C("std_gamma_after", [first, a], stats.gamma(a), 0)
    # hyperexponential with branch probabilities that sum to one only within the documented tolerance, last entry zero, far-out last mean
    C("hyperexponential", vec(1, 2, 5000) + [0.5, 0.4995, 0.0], HyperExp([1, 2], [0.5, 0.5]), 0)      # the remainder belongs to the last branch that can be chosen at all
    C("hyperexponential", vec(1, 2, 5000) + [0.5, 0.5, 0.0], HyperExp([1, 2], [0.5, 0.5]), 0)
    C("beta", [2, 3, -1, 2], stats.beta(2, 3, -1, 3), -1, 2)
    C("beta", [0.5, 0.5, 10, 10.5], stats.beta(0.5, 0.5, 10, 0.5), 10, 10.5)
    C("PERT", [1, 2, 5], stats.beta(2, 4, 1, 4), 1, 5)
    C("PERT", [0, 0.001, 1], stats.beta(1.004, 4.996, 0, 1), 0, 1)
    C("PERT_mod", [1, 3, 5, 0.5], stats.beta(1.25, 1.25, 1, 4), 1, 5)
    C("PERT_mod", [1, 4.5, 5, 10], stats.beta(9.75, 2.25, 1, 4), 1, 5)
    for c, sc in ((0.5, 1), (1, 2), (3, 0.1)):
        C("weibull", [c, sc], stats.weibull_min(c, scale=sc), 0)
    for b, m in ((0.5, 1), (3, 2), (50, 0.1)):
        C("pareto", [b, m], stats.pareto(b, scale=m), m, mom=(b > 2.5))
    for k in (0.1, 1, 2, 7, 100):
        C("chisquared", [k], stats.chi2(k), 0)
    C("F_dist", [3, 7], stats.f(3, 7), 0, mom=True)
    C("F_dist", [0.5, 0.5], stats.f(0.5, 0.5), 0, mom=False)
    C("F_dist", [40, 30], stats.f(40, 30), 0)
    for v in (0.5, 1, 3, 30):
        C("std_t_dist", [v], stats.t(v), mom=(v > 2.5))
    C("t_dist", [10, 2, 5], stats.t(5, 10, 2))
    C("rayleigh", [1], stats.rayleigh(), 0)
    C("rayleigh", [0.01], stats.rayleigh(scale=0.01), 0)
    # discrete
    D("flip", [], stats.bernoulli(0.5), 0, 1)
    for p in (0.0, 1e-3, 0.3, 0.999, 1.0):
        D("bernoulli", [p], stats.bernoulli(p), 0, 1, only=(0 if p == 0.0 else 1 if p == 1.0 else None))
    for p in (0.01, 0.3, 0.5, 0.999):
        D("geometric", [p], stats.geom(p), 1)
    D("geometric", [1.0], None, 1, 1, only=1)
    for n, p in ((1, 0.3), (10, 0.5), (40, 0.01), (7, 0.999)):
        D("binomial", [n, p], stats.binom(n, p), 0, n)
    D("binomial", [5, 1.0], None, 5, 5, only=5)
    for m, p in ((1, 0.3), (3, 0.5), (10, 0.9), (2, 0.01)):
        D("negative_binomial", [m, p], stats.nbinom(m, p), 0)
    D("negative_binomial", [3, 1.0], None, 0, 0, only=0)
    D("pascal", [4, 0.25], stats.nbinom(4, 0.25), 0)
    D("pascal", [2, 1.0], None, 0, 0, only=0)
    for r in (0.1, 4, 30):
        D("poisson", [r], stats.poisson(r), 0)
    D("dice", [1, 6], stats.randint(1, 7), 1, 6)
    D("dice", [-3, 3], stats.randint(-3, 4), -3, 3)
    D("dice", [0, 1], stats.randint(0, 2), 0, 1)
    D("dice", [-1000000, 1000000], stats.randint(-1000000, 1000001), -1000000, 1000000)
    # ranges with 2^32 faces and more (the arguments are longs)
    for a_, b_ in ((0, 2**32 - 1), (0, 2**32), (-2**40, 2**40), (0, 10**10), (-5, 2**33)):
        D("dice", [a_, b_], stats.randint(a_, b_ + 1), a_, b_)
    # loaded dice / alias tables: exact vectors with fit, tolerance-edge vectors with support only
    rng = np.random.default_rng(12345)
    vecs = [[1.0], [0.5, 0.5], [0.0, 1.0, 0.0], [0.1, 0.2, 0.3, 0.4], [0.97, 0.01, 0.01, 0.01],
            list(np.full(16, 1 / 16)), [1e-6, 1 - 1e-6], [0.25, 0.0, 0.25, 0.0, 0.5]]
    rv = rng.dirichlet(np.ones(12)); vecs.append(list(rv))
    rv = rng.dirichlet(np.ones(37) * 0.2); vecs.append(list(rv))
    for v in vecs:
        pm = np.array(v) / sum(v)
        D("loaded_dice", vec(*v), ("pmf", pm), 0, len(v) - 1)
        D("alias", vec(*v), ("pmf", pm), 0, len(v) - 1)
    # a long table read from a file with six decimals (the sum is short of one by 7.5e-4, inside the tolerance), the first three alternatives retired
    rv = np.floor(rng.dirichlet(np.ones(1497) * 3.0) * 1e6) / 1e6
    v = [0.0, 0.0, 0.0] + list(rv); pm = np.array(v) / sum(v)
    D("alias", vec(*v), ("pmf_loose", pm), 0, len(v) - 1, zeros=[0, 1, 2])
    D("loaded_dice", vec(*v), ("pmf_loose", pm), 0, len(v) - 1, zeros=[0, 1, 2])
    v = list(np.floor(rng.dirichlet(np.ones(997) * 3.0) * 1e6) / 1e6) + [0.0, 0.0, 0.0]; pm = np.array(v) / sum(v)
    D("alias", vec(*v), ("pmf_loose", pm), 0, len(v) - 1, zeros=[997, 998, 999])
    # sums within the accepted 1e-3 tolerance but not exactly one: index must stay valid
    for v in ([0.3, 0.3, 0.3995], [0.5, 0.4991], [0.2] * 4 + [0.1996], [0.3, 0.3, 0.4005], [0.9992], [1.0008],
              [1 / 3, 1 / 3, 1 / 3], [0.1] * 10, [1 / 7] * 7, [0.3333, 0.3333, 0.3333]):
        pm = np.array(v) / sum(v)
        D("loaded_dice", vec(*v), ("pmf_loose", pm), 0, len(v) - 1)
        D("alias", vec(*v), ("pmf", pm), 0, len(v) - 1)
    # intervals a few thousand doubles wide, far from zero (a microsecond window at t = 1e6, whole seconds at 1e15), shapes with mass at
    # the ends: every draw inside [min, max]; too few distinct values for a fit test
    S("beta", [0.5, 0.5, 1e6, 1e6 + 1e-6], 1e6, 1e6 + 1e-6)
    S("beta", [0.3, 2.0, 1e6, 1e6 + 1e-6], 1e6, 1e6 + 1e-6)
    S("beta", [2.0, 0.3, 1e6, 1e6 + 1e-6], 1e6, 1e6 + 1e-6)
    S("beta", [0.5, 0.5, -1e6 - 1e-6, -1e6], -1e6 - 1e-6, -1e6)
    S("beta", [0.2, 0.2, 1e15, 1e15 + 2], 1e15, 1e15 + 2)
    S("PERT", [1e15, 1e15 + 1, 1e15 + 2], 1e15, 1e15 + 2)
    S("PERT_mod", [1e9, 1e9 + 0.5e-4, 1e9 + 1e-4, 0.05], 1e9, 1e9 + 1e-4)
    S("PERT_mod", [1e9, 1e9 + 0.1e-4, 1e9 + 1e-4, 0.3], 1e9, 1e9 + 1e-4)
    S("uniform", [1e15, 1e15 + 2], 1e15, 1e15 + 2)
    S("triangular", [1e9, 1e9 + 0.5e-4, 1e9 + 1e-4], 1e9, 1e9 + 1e-4)
    # very small shapes (both boosted gammas can underflow to zero), also drawn by a simulated process
    for ab in ((0.0037, 0.0037), (0.0012, 0.0012), (0.01, 0.0005), (0.0002, 0.3)):
        S("std_beta", list(ab), 0, 1)
    S("proc:std_beta", [0.002, 0.002], 0, 1)
    S("beta", [0.001, 0.001, -2, 3], -2, 3)
    S("std_gamma", [0.0005], 0, inf)
    # success probabilities near zero: 1 - p rounds to 1; the count does not fit the return type
    S("geometric", [1e-17], 1, inf, integer=True)
    S("geometric", [1e-12], 1, inf, integer=True)
    S("geometric", [3e-10], 1, 4294967295, integer=True)
    S("proc:geometric", [1e-17], 1, inf, integer=True)
    # dice far from zero, where base + offset is no longer exact in a double: offsets reported
    for base, width in ((0, 1), (0, 2), (1, 5), (2, 5), (3, 40), (4, 5), (5, 6)):
        S("dice_at", [base, width], 0, width, integer=True)
    # degenerate and huge parameters that satisfy the asserted preconditions
    S("proc:triangular", [5, 5, 5], 5, 5)
    S("proc:triangular", [2, 2, 3], 2, 3)
    S("proc:triangular", [2, 3, 3], 2, 3)
    S("triangular", [0, 1e160, 1e200], 0, 1e200)
    S("uniform", [-1e308, 1e308], -1e308, 1e308)
    S("uniform", [-1.7e308, 1.7e308], -1.7e308, 1.7e308)
    S("rayleigh", [1e160], 0, 1.7e308)
    S("rayleigh", [1e-170], 1e-185, 1e-160)      # (a correct draw is below 1e-185 with probability 5e-31)
    # degenerate triangular: support only
    S("triangular", [2, 2, 2], 2, 2)
    return G


# ---------------------------------------------------------------- tests
def support_check(x, g):
    bad = ~np.isfinite(x)
    bad |= (x < g["lo"]) | (x > g["hi"])
    if g["kind"] == "d" or g.get("integer"):
        bad |= (np.floor(x) != x)
    if g.get("only") is not None:
        bad |= (x != g["only"])
    if g.get("zeros") is not None:
        bad |= np.isin(x, g["zeros"])          # alternatives of probability zero are outside the support
    idx = np.flatnonzero(bad)
    if len(idx):
        return int(len(idx)), float(x[idx[0]]), int(idx[0])
    return 0, None, None


def fit_tests(x, g, zig=False):
    """returns list of (testname, pvalue, stat)"""
    out = []
    n = len(x)
    if g["kind"] == "c":
        ref = g["ref"]
        ks = stats.kstest(x, ref.cdf)
        out.append(("KS", float(ks.pvalue), float(ks.statistic)))
        if g.get("mom"):
            try:
                mu, var = float(ref.mean()), float(ref.var())
            except Exception:  # noqa
                mu, var = math.nan, math.nan
            if math.isfinite(mu) and math.isfinite(var) and var > 0:
                z = (float(np.mean(x)) - mu) / math.sqrt(var / n)
                out.append(("mean-z", float(2 * stats.norm.sf(abs(z))), z))
        if zig:
            nb = 512
            edges = ref.ppf(np.linspace(0, 1, nb + 1))
            edges[0], edges[-1] = -np.inf, np.inf
            cnt, _ = np.histogram(x, bins=edges)
            e = n / nb
            chi = float(((cnt - e) ** 2 / e).sum())
            out.append(("chi2-512", float(stats.chi2.sf(chi, nb - 1)), chi))
            # explicit tail mass
            for thr in ((3.0, 4.5) if g["s"] == "std_normal" else (7.0, 12.0)):
                pt = float(ref.sf(thr)) * (2 if g["s"] == "std_normal" else 1)
                k = int((np.abs(x) > thr).sum())
                out.append((f"tail>{thr}", float(stats.binomtest(k, n, pt).pvalue), k))
    elif g["kind"] == "d" and g["ref"] is not None and g.get("only") is None:
        ref = g["ref"]
        xi = x.astype(np.int64)
        if isinstance(ref, tuple):
            pm = ref[1]
            ks_ = np.arange(len(pm)); pk = pm
            loose = ref[0] == "pmf_loose"
        else:
            lo = int(max(g["lo"], ref.ppf(1e-9) - 1)) if math.isfinite(g["lo"]) else int(ref.ppf(1e-9) - 1)
            hi = int(ref.ppf(1 - 1e-9)) + 1
            if hi - lo > 3000:   # wide uniform dice: bin into 100 blocks
                blocks = np.linspace(lo, hi + 1, 101).astype(np.int64)
                cnt, _ = np.histogram(xi, bins=blocks)
                pk = np.diff(ref.cdf(blocks - 1))
                e = pk * len(xi)
                chi = float(((cnt - e) ** 2 / e).sum())
                out.append(("chi2", float(stats.chi2.sf(chi, len(e) - 1)), chi))
                return out
            ks_ = np.arange(lo, hi + 1); pk = ref.pmf(ks_)
            loose = False
        # merge small-expectation bins into one remainder bin
        e = pk * len(xi)
        cnt = np.array([(xi == k).sum() for k in ks_], float) if len(ks_) <= 64 else np.bincount(xi - ks_[0], minlength=len(ks_))[:len(ks_)].astype(float)
        other_obs = len(xi) - cnt.sum()
        big = e >= 5
        obs = list(cnt[big]); exp = list(e[big])
        ro, re_ = cnt[~big].sum() + other_obs, e[~big].sum() + max(0.0, len(xi) - e.sum())
        if re_ >= 5:
            obs.append(ro); exp.append(re_)
        elif ro > 0 and re_ < 1e-3 * 1:
            # observations where essentially no mass is expected
            out.append(("impossible-values", 0.0 if ro > 5 else 1.0, float(ro)))
        obs, exp = np.array(obs), np.array(exp)
        if len(obs) >= 2:
            exp = exp * obs.sum() / exp.sum()
            chi = float(((obs - exp) ** 2 / exp).sum())
            p = float(stats.chi2.sf(chi, len(obs) - 1))
            if loose:
                # probabilities only defined up to the accepted 1e-3 tolerance: allow that much relative bias
                dev = float(np.max(np.abs(obs / obs.sum() - exp / exp.sum())))
                p = 1.0 if dev < 3e-3 + 4 / math.sqrt(len(xi)) else p
            out.append(("chi2", p, chi))
        elif len(obs) == 1 and zero_mass_seen(cnt, e):
            out.append(("impossible-values", 0.0, 0.0))
    return out


def zero_mass_seen(cnt, e):
    return bool(((e == 0) & (cnt > 0)).any())


def run_set(a):
    exe, seed, i, g, n, zig = a
    label = f"{g['s']}({','.join(format(v, 'g') for v in g['p'])})" if len(g['p']) <= 12 else f"{g['s']}({','.join(format(v, 'g') for v in g['p'][:8])},...{len(g['p']) - 8}_more)"
    res = {"label": label, "viol": [], "worst_p": 1.0, "draws": 0, "stage2": 0, "tests": 0, "error": None}
    x, err = draw(exe, h64(seed, i, 1), n, g["s"], g["p"])
    if x is None:
        res["viol"].append((f"C16/sampler-crash/{label}", err)); return res
    res["draws"] += len(x)
    nb, first, where = support_check(x, g)
    if nb:
        res["viol"].append((f"C16/support/{label}", f"{nb} of {len(x)} draws outside the support [{g['lo']},{g['hi']}]; first bad value {first!r} at draw {where} (sampler seed {h64(seed, i, 1)})"))
        return res
    tests = fit_tests(x, g, zig)
    res["tests"] = len(tests)
    for name, p, st in tests:
        res["worst_p"] = min(res["worst_p"], p)
        if p < P1:
            res["stage2"] += 1
            x2, err = draw(exe, h64(seed, i, 2), 4 * n, g["s"], g["p"])
            if x2 is None:
                res["viol"].append((f"C16/sampler-crash/{label}", err)); return res
            res["draws"] += len(x2)
            nb, first, where = support_check(x2, g)
            if nb:
                res["viol"].append((f"C16/support/{label}", f"{nb} of {len(x2)} draws outside the support; first bad value {first!r}")); return res
            for name2, p2, st2 in fit_tests(x2, g, zig):
                if name2 == name and p2 < P2:
                    res["viol"].append((f"C16/fit/{label}/{name}", f"stage1 p={p:.3g} (n={n}), stage2 p={p2:.3g} (n={4 * n}, stat={st2:.6g}) against the stated distribution"))
            break
    return res


def main():
    ap = argparse.ArgumentParser()
    ap.add_argument("--exe", required=True); ap.add_argument("--seed", type=int, default=1)
    ap.add_argument("--tier", default="quick"); ap.add_argument("--jobs", type=int, default=16)
    ap.add_argument("--only")
    a = ap.parse_args()
    n = 200_000 if a.tier == "quick" else 6_000_000
    nz = 10_000_000 if a.tier == "quick" else 40_000_000
    G = grid()
    tasks = []
    for i, g in enumerate(G):
        if a.only and a.only not in g["s"]:
            continue
        zig = g["s"] in ("std_normal", "std_exponential")
        nn = nz if zig else (n // 4 if g["s"] in ("binomial", "erlang", "poisson") and g["p"] and g["p"][0] >= 20 else n)
        tasks.append((a.exe, a.seed, i, g, nn, zig))
    with cf.ThreadPoolExecutor(max_workers=a.jobs) as ex:
        results = list(ex.map(run_set, tasks))
    viol, counters, fps, samples = [], {}, [], []
    worst = {}
    for t, r in zip(tasks, results):
        g = t[3]
        counters["draws"] = counters.get("draws", 0) + r["draws"]
        counters["draws_" + g["s"]] = counters.get("draws_" + g["s"], 0) + r["draws"]
        counters["parameter_sets"] = counters.get("parameter_sets", 0) + 1
        counters["fit_tests"] = counters.get("fit_tests", 0) + r["tests"]
        counters["support_checks"] = counters.get("support_checks", 0) + 1
        counters["stage2_reruns"] = counters.get("stage2_reruns", 0) + r["stage2"]
        worst[g["s"]] = min(worst.get(g["s"], 1.0), r["worst_p"])
        fps.append("+%016x" % h64(r["label"]))
        for k, d in r["viol"]:
            viol.append({"key": k.replace(" ", ""), "count": 1, "case": t[2], "detail": d})
    for s, p in sorted(worst.items()):
        counters["worst_p_ppm_" + s] = int(p * 1e6)
    samples = [f"{r['label']}: {r['draws']} draws, {r['tests']} fit tests, worst p={r['worst_p']:.3g}" for r in results[:3]]
    print(json.dumps({"seed": a.seed, "from": 0, "to": len(tasks), "profile": 0, "cases": len(tasks),
                      "violating_cases": len({v['case'] for v in viol}), "abnormal": 0, "inconclusive": 0,
                      "nontrivial": len(tasks), "counters": counters, "violations": viol, "samples": samples,
                      "inconclusive_first": "", "fingerprints": fps}))


if __name__ == "__main__":
    main()
