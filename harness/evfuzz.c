/*
 * evfuzz - event queue against a reference multiset of pending events.  C01.
 *
 * Operations are issued from outside the dispatcher and - half of them - from
 * inside running event actions.  After every operation a sample of the query
 * surface is compared with the model.
 * profile 0: mixed    profile 1: tie-heavy, small    profile 2: large populations (growth to 1024+)
 */
#include "vr.h"
#include <math.h>
#include "cimba.h"
#include "cmi_coroutine.h"
#include "cmi_hashheap.h"

extern struct cmi_hashheap *cmi_verif_event_queue(void);

struct mev { uint64_t h; int act; void *subj, *obj; double t; int64_t pri; };
static struct mev *M; static size_t mn, mcap;
static uint64_t *dead; static size_t ndead, deadcap;     /* executed / cancelled / cleared handles */
static vr_rng R;
static double last_time; static bool have_last;
static uint64_t last_handle;
static int in_action;            /* depth: 1 while an action runs */
static uint64_t cur_handle;      /* handle of the running event per the model */
static int tiemode;
static int executed, ties_time, ties_timeprio, inaction_mut;
static size_t target_pop;

static void act0(void *s, void *o); static void act1(void *s, void *o); static void act2(void *s, void *o);
static cmb_event_func *acts[3] = { act0, act1, act2 };
static void *subjs[3] = { (void *)0x10, (void *)0x20, NULL };
static void *objs[3] = { (void *)0x100, NULL, (void *)0x300 };

static int before(const struct mev *a, const struct mev *b)
{
    if (a->t < b->t) return 1; if (a->t > b->t) return 0;
    if (a->pri > b->pri) return 1; if (a->pri < b->pri) return 0;
    return a->h < b->h;
}
static long m_find(uint64_t h) { for (size_t k = 0; k < mn; k++) if (M[k].h == h) return (long)k; return -1; }
static long m_min(void) { if (!mn) return -1; size_t b = 0; for (size_t k = 1; k < mn; k++) if (before(&M[k], &M[b])) b = k; return (long)b; }
static void m_del(size_t k) { if (ndead == deadcap) { deadcap = deadcap ? deadcap * 2 : 256; dead = realloc(dead, deadcap * sizeof *dead); } dead[ndead++] = M[k].h; M[k] = M[mn - 1]; mn--; }
static void m_add(struct mev e) { if (mn == mcap) { mcap = mcap ? mcap * 2 : 256; M = realloc(M, mcap * sizeof *M); } M[mn++] = e; }

static bool inf_ok;
static double pick_time(void)
{
    double now = cmb_time();
    unsigned w = (unsigned)vr_below(&R, 100);
    if (tiemode) { static const double d[] = { 0, 0, 0, 1, 1, 2 }; if (inf_ok && w < 15) { VR_CNT("events_scheduled_at_infinite_time"); return INFINITY; } return now + d[vr_below(&R, 6)]; }
    if (w < 25) return now;
    if (w < 70) { static const double d[] = { 0, 0.5, 1, 1, 2, 3.25, 10 }; return now + d[vr_below(&R, 7)]; }
    if (w < 75) return now + 1e-300 * (double)vr_below(&R, 4);
    if (w < 78) return now > 1e300 ? now : 1e300;
    if (w < 80) return nextafter(now, INFINITY);
    if (w < 84 && inf_ok) { VR_CNT("events_scheduled_at_infinite_time"); return INFINITY; }      /* parked at the end of time: a time like any other */
    return now + vr_unit(&R) * 20;
}
static int64_t pick_pri(void)
{
    static const int64_t lat[] = { 0, 0, 0, 1, -1, 5, INT64_MIN, INT64_MAX, INT64_MAX - 1, INT64_MIN + 1 };
    if (tiemode) return (int64_t)vr_below(&R, 2);
    if (vr_chance(&R, 1, 8)) return (int64_t)vr_next(&R);
    return lat[vr_below(&R, 10)];
}

static void check_queries(const char *after)
{
    if (vr_nviol) return;
    if (cmb_event_queue_count() != mn || cmb_event_queue_is_empty() != (mn == 0)) { vr_violation("C01/count", "after %s: queue_count=%" PRIu64 " is_empty=%d, model has %zu pending", after, cmb_event_queue_count(), (int)cmb_event_queue_is_empty(), mn); return; }
    /* live handle */
    if (mn) { size_t k = vr_below(&R, mn); const struct mev *e = &M[k];
        if (!cmb_event_is_scheduled(e->h)) { vr_violation("C01/is-scheduled-live", "after %s: pending event %" PRIu64 " reported not scheduled", after, e->h); return; }
        double t = cmb_event_time(e->h); int64_t p = cmb_event_priority(e->h);
        if (memcmp(&t, &e->t, 8) != 0 || p != e->pri) { vr_violation("C01/time-priority-query", "after %s: event %" PRIu64 " reports (t=%g, pri=%" PRId64 "), model (t=%g, pri=%" PRId64 ")", after, e->h, t, p, e->t, e->pri); return; } }
    /* dead handle (executed / cancelled) and never issued */
    if (ndead) { uint64_t h = dead[vr_below(&R, ndead)]; if (m_find(h) < 0 && cmb_event_is_scheduled(h)) { vr_violation("C01/is-scheduled-dead", "after %s: executed/cancelled event %" PRIu64 " reported scheduled", after, h); return; } }
    { uint64_t h = last_handle + 1000 + vr_below(&R, 1000); if (mn && cmb_event_is_scheduled(h)) { vr_violation("C01/is-scheduled-never", "after %s: never issued handle %" PRIu64 " reported scheduled", after, h); return; } }
    if (in_action && cmb_event_current() != cur_handle) { vr_violation("C01/current-event", "after %s inside the action of event %" PRIu64 ": cmb_event_current() = %" PRIu64, after, cur_handle, cmb_event_current()); return; }
    /* pattern count with random wildcards */
    if (vr_chance(&R, 1, 3)) {
        int a = (int)vr_below(&R, 4), s = (int)vr_below(&R, 4), o = (int)vr_below(&R, 4);
        uint64_t want = 0; for (size_t k = 0; k < mn; k++) if ((a == 3 || M[k].act == a) && (s == 3 || M[k].subj == subjs[s]) && (o == 3 || M[k].obj == objs[o])) want++;
        uint64_t got = cmb_event_pattern_count(a == 3 ? CMB_ANY_ACTION : acts[a], s == 3 ? CMB_ANY_SUBJECT : subjs[s], o == 3 ? CMB_ANY_OBJECT : objs[o]);
        if (got != want) { vr_violation("C01/pattern-count", "after %s: pattern_count=%" PRIu64 " model %" PRIu64, after, got, want); return; }
        uint64_t f = cmb_event_pattern_find(a == 3 ? CMB_ANY_ACTION : acts[a], s == 3 ? CMB_ANY_SUBJECT : subjs[s], o == 3 ? CMB_ANY_OBJECT : objs[o]);
        if (want == 0) { if (f != 0) { vr_violation("C01/pattern-find", "after %s: pattern_find=%" PRIu64 " with no match", after, f); return; } }
        else { long k = m_find(f); if (k < 0 || !((a == 3 || M[k].act == a) && (s == 3 || M[k].subj == subjs[s]) && (o == 3 || M[k].obj == objs[o]))) { vr_violation("C01/pattern-find", "after %s: pattern_find returned %" PRIu64 " which does not match", after, f); return; } }
        if (want >= 2) VR_CNT("pattern_queries_multi_match");
    }
    /* structural walk of the real queue (cheap version of the C02 walker) */
    if (vr_chance(&R, 1, 8)) {
        const struct cmi_hashheap *hp = cmi_verif_event_queue();
        for (uint64_t i = 1; i <= hp->heap_count; i++) { long k = m_find(hp->heap[i].key); if (k < 0 || hp->hash_map[hp->heap[i].hash_index].heap_index != i) { vr_violation("C01/queue-structure", "after %s: heap slot %" PRIu64 " key %" PRIu64 " not a pending event / bad back-pointer", after, i, hp->heap[i].key); return; } }
        VR_CNT("structure_walks");
    }
    VR_CNT("query_rounds");
}

/* one mutating operation; allowed both outside and inside actions */
static void one_op(void)
{
    if (vr_nviol) return;
    unsigned w = (unsigned)vr_below(&R, 100);
    char what[64] = "";
    vr_fp_mix(w / 5 + (in_action ? 64u : 0u));
    if (mn < target_pop && w < 55) w = 0;
    if (w < 40) { /* schedule */
        struct mev e; e.act = (int)vr_below(&R, 3); e.subj = subjs[vr_below(&R, 3)]; e.obj = objs[vr_below(&R, 3)]; e.t = pick_time(); e.pri = pick_pri();
        uint64_t sz = cmi_verif_event_queue()->heap_size;
        e.h = cmb_event_schedule(acts[e.act], e.subj, e.obj, e.t, e.pri);
        if (cmi_verif_event_queue()->heap_size != sz) { VR_CNT("queue_growths"); VR_MAX("max_queue_capacity", cmi_verif_event_queue()->heap_size); }
        if (e.h == 0 || e.h <= last_handle) { vr_violation("C01/handle", "schedule returned handle %" PRIu64 " after %" PRIu64, e.h, last_handle); return; }
        last_handle = e.h; m_add(e); VR_CNT("op_schedule"); snprintf(what, sizeof what, "schedule");
    } else if (w < 55) { /* cancel: live, dead, never */
        unsigned how = (unsigned)vr_below(&R, 10);
        if (how < 6 && mn) { size_t k = vr_below(&R, mn); uint64_t h = M[k].h; bool ok = cmb_event_cancel(h); if (!ok) { vr_violation("C01/cancel-live", "cancel(pending %" PRIu64 ") returned false", h); return; } m_del(k); VR_CNT("op_cancel_live"); }
        else if (how < 9 && ndead) { uint64_t h = dead[vr_below(&R, ndead)]; if (m_find(h) >= 0) return; if (mn == 0) VR_CNT("op_cancel_on_empty_queue"); bool ok = cmb_event_cancel(h); if (ok) { vr_violation("C01/cancel-dead", "cancel(executed/cancelled %" PRIu64 ") returned true", h); return; } VR_CNT("op_cancel_dead"); }
        else { if (mn == 0) VR_CNT("op_cancel_on_empty_queue"); if (cmb_event_cancel(last_handle + 5000)) { vr_violation("C01/cancel-never", "cancel(never issued) returned true"); return; } }
        snprintf(what, sizeof what, "cancel");
    } else if (w < 70) { /* reschedule */
        if (!mn) return; size_t k = vr_below(&R, mn);
        if (!cmb_event_is_scheduled(M[k].h)) { vr_violation("C01/is-scheduled-live", "pending event %" PRIu64 " not scheduled before reschedule", M[k].h); return; }
        double t = pick_time(); cmb_event_reschedule(M[k].h, t); M[k].t = t; VR_CNT("op_reschedule"); snprintf(what, sizeof what, "reschedule");
    } else if (w < 85) { /* reprioritize */
        if (!mn) return; size_t k = vr_below(&R, mn);
        int64_t p = pick_pri(); cmb_event_reprioritize(M[k].h, p); M[k].pri = p; VR_CNT("op_reprioritize"); snprintf(what, sizeof what, "reprioritize");
    } else if (w < 92) { /* pattern cancel */
        if (mn > 3 && !vr_chance(&R, 1, target_pop > 60 ? 25 : 3)) return;
        int a = (int)vr_below(&R, 4), s = (int)vr_below(&R, 4), o = (int)vr_below(&R, 4);
        if (a == 3 && s == 3 && o == 3 && !vr_chance(&R, 1, 5)) a = 0;
        uint64_t want = 0; for (size_t k = 0; k < mn; k++) if ((a == 3 || M[k].act == a) && (s == 3 || M[k].subj == subjs[s]) && (o == 3 || M[k].obj == objs[o])) want++;
        uint64_t got = cmb_event_pattern_cancel(a == 3 ? CMB_ANY_ACTION : acts[a], s == 3 ? CMB_ANY_SUBJECT : subjs[s], o == 3 ? CMB_ANY_OBJECT : objs[o]);
        if (got != want) { vr_violation("C01/pattern-cancel", "pattern_cancel=%" PRIu64 " model %" PRIu64, got, want); return; }
        for (size_t k = 0; k < mn; ) if ((a == 3 || M[k].act == a) && (s == 3 || M[k].subj == subjs[s]) && (o == 3 || M[k].obj == objs[o])) m_del(k); else k++;
        VR_CNT("op_pattern_cancel"); if (want >= 2) VR_CNT("pattern_cancel_multi"); snprintf(what, sizeof what, "pattern_cancel");
    } else return;
    if (in_action) { inaction_mut++; VR_CNT("mutations_from_inside_actions"); }
    check_queries(what);
}

static int clear_requested;
static void action_common(int which, void *s, void *o)
{
    if (vr_nviol) return;
    long k = m_min();
    uint64_t cur = cmb_event_current();
    if (k < 0) { vr_violation("C01/ghost-execution", "an action ran (handle %" PRIu64 ") but no event is pending in the model", cur); return; }
    const struct mev e = M[k];
    if (cur != e.h) {
        long kk = m_find(cur);
        if (kk < 0) { bool wasdead = false; for (size_t d = 0; d < ndead; d++) if (dead[d] == cur) wasdead = true; vr_violation(wasdead ? "C01/executed-twice-or-after-cancel" : "C01/ghost-execution", "event %" PRIu64 " ran but it is %s (expected next: %" PRIu64 ")", cur, wasdead ? "already executed / cancelled" : "unknown", e.h); }
        else vr_violation("C01/order", "event %" PRIu64 " (t=%g pri=%" PRId64 ") ran while event %" PRIu64 " (t=%g pri=%" PRId64 ") was pending and precedes it", cur, M[kk].t, M[kk].pri, e.h, e.t, e.pri);
        return;
    }
    if (which != e.act || s != e.subj || o != e.obj) { vr_violation("C01/arguments", "event %" PRIu64 " ran with action %d subject %p object %p, scheduled with %d %p %p", e.h, which, s, o, e.act, e.subj, e.obj); return; }
    double now = cmb_time();
    if (memcmp(&now, &e.t, 8) != 0 && !(now == e.t)) { vr_violation("C01/clock-vs-event-time", "event %" PRIu64 " scheduled for %.17g runs with clock %.17g", e.h, e.t, now); return; }
    if (have_last && now < last_time) { vr_violation("C01/clock-decreased", "clock went from %.17g to %.17g", last_time, now); return; }
    if (have_last && now == last_time) { ties_time++; VR_CNT("time_ties_executed"); }
    last_time = now; have_last = true;
    /* tie statistics */
    for (size_t j = 0; j < mn; j++) if ((long)j != k && M[j].t == e.t && M[j].pri == e.pri) { ties_timeprio++; VR_CNT("time_priority_ties_resolved_by_handle"); break; }
    m_del((size_t)k);
    executed++; VR_CNT("events_executed");
    cur_handle = e.h; in_action = 1;
    /* the action's own little script */
    if (vr_chance(&R, 1, 2)) { int n = 1 + (int)vr_below(&R, 3); for (int q = 0; q < n && vr_nviol == 0; q++) one_op(); }
    if (vr_nviol == 0 && cmb_event_current() != cur_handle) vr_violation("C01/current-event", "at the end of the action of event %" PRIu64 " cmb_event_current() = %" PRIu64, cur_handle, cmb_event_current());
    if (vr_nviol == 0) { double t2 = cmb_time(); if (t2 != now) vr_violation("C01/clock-vs-event-time", "clock changed during an action: %.17g -> %.17g", now, t2); }
    if (clear_requested == 1 && vr_chance(&R, 1, 40)) { cmb_event_queue_clear(); while (mn) m_del(mn - 1); clear_requested = 2; VR_CNT("queue_clear_from_action"); check_queries("queue_clear"); }
    in_action = 0;
}
static void act0(void *s, void *o) { action_common(0, s, o); }
static void act1(void *s, void *o) { action_common(1, s, o); }
static void act2(void *s, void *o) { action_common(2, s, o); }

static struct cmi_coroutine *opco; static int co_burst;
static void *co_ops(struct cmi_coroutine *c, void *ctx) { (void)c; (void)ctx; for (int q = 0; q < co_burst && vr_nviol == 0; q++) one_op(); return NULL; }
void vr_case(uint64_t seed, uint64_t idx, int profile)
{
    cmb_logger_flags_off(CMB_LOGGER_INFO | CMB_LOGGER_WARNING);
    R = vr_rng_make(seed, idx, 0xC01 + (uint64_t)profile);
    tiemode = profile == 1;
    static const double starts[] = { 0.0, -100.0, 1e12, 0.0 };
    /* one case in three gives the thread's event queue a second and third life (terminate, initialise again at another start time) */
    int nlives = vr_chance(&R, 1, 3) ? 2 + (int)vr_below(&R, 2) : 1;
    double t0 = 0.0;
    for (int life = 0; life < nlives && vr_nviol == 0; life++) {
    t0 = starts[vr_below(&R, 4)];
    if (life) VR_CNT("queue_lives_after_the_first");
    cmb_event_queue_initialize(t0);
    mn = 0; ndead = 0; have_last = false; last_handle = 0; in_action = 0; executed = ties_time = ties_timeprio = inaction_mut = 0;
    clear_requested = vr_chance(&R, 1, 3) ? 1 : 0; inf_ok = vr_chance(&R, 1, 4);
    target_pop = profile == 2 ? (size_t)(64 << vr_below(&R, 5)) + vr_below(&R, 9) : profile == 1 ? 2 + vr_below(&R, 12) : 4 + vr_below(&R, 40);
    int budget = profile == 2 ? 2500 : 60 + (int)vr_below(&R, 340);
    vr_fp_mix((uint64_t)profile); vr_fp_mix((uint64_t)target_pop);
    if (cmb_time() != t0) vr_violation("C01/start-time", "clock %g after initialize(%g)", cmb_time(), t0);
    if (cmb_event_current() != 0) vr_violation("C01/current-event", "cmb_event_current() = %" PRIu64 " before any event", cmb_event_current());
    check_queries("initialize");
    while (budget > 0 && vr_nviol == 0) {
        int burst = 1 + (int)vr_below(&R, 6);
        /* one burst in five is made from inside a coroutine (as a simulated process would: with the invalid and divide-by-zero floating
         * point exceptions unmasked, so that e.g. inf - inf in a comparison of event times ends the program) */
        if (vr_chance(&R, 1, 5)) { if (!opco) { opco = cmi_coroutine_create(); cmi_coroutine_initialize(opco, co_ops, NULL, NULL, 256 * 1024); } co_burst = burst; (void)cmi_coroutine_start(opco, NULL); budget -= burst; VR_CNT("bursts_made_inside_a_coroutine"); if (inf_ok) VR_CNT("bursts_inside_a_coroutine_with_events_at_infinity_possible"); }
        else
        for (int q = 0; q < burst && vr_nviol == 0; q++) { one_op(); budget--; }
        int runs = (int)vr_below(&R, 4);
        for (int q = 0; q < runs && vr_nviol == 0; q++) {
            size_t before_n = mn; int ex0 = executed;
            bool r = cmb_event_execute_next(); budget--;
            if (r != (before_n > 0)) { vr_violation("C01/execute-next-return", "execute_next returned %d with %zu pending", (int)r, before_n); break; }
            if (r && executed != ex0 + 1) { vr_violation(executed == ex0 ? "C01/lost-event" : "C01/executed-twice-or-after-cancel", "execute_next returned true but %d actions ran", executed - ex0); break; }
            check_queries("execute_next");
        }
    }
    /* drain: every pending event must run exactly once */
    int guard = 0;
    while (vr_nviol == 0 && mn > 0 && guard++ < 200000) {
        int ex0 = executed; size_t n0 = mn;
        if (!cmb_event_execute_next()) { vr_violation("C01/lost-event", "execute_next returned false with %zu events pending in the model", n0); break; }
        if (executed == ex0) { vr_violation("C01/lost-event", "execute_next ran no action"); break; }
    }
    if (vr_nviol == 0 && (cmb_event_execute_next() || !cmb_event_queue_is_empty())) vr_violation("C01/ghost-execution", "queue not exhausted when the model is");
    /* cancel on the now empty queue must simply return false */
    if (vr_nviol == 0 && ndead) { VR_CNT("op_cancel_on_empty_queue"); if (cmb_event_cancel(dead[0])) vr_violation("C01/cancel-dead", "cancel on empty queue returned true"); }
    if (vr_nviol == 0) cmb_event_queue_terminate();
    }
    if (ties_time > 0 && inaction_mut > 0) vr_mark_nontrivial();
    if (idx % 149 == 0) vr_sample("profile=%d start=%g target_pop=%zu executed=%d time_ties=%d time+prio_ties=%d in-action mutations=%d", profile, t0, target_pop, executed, ties_time, ties_timeprio, inaction_mut);
}

int main(int argc, char **argv) { return vr_main(argc, argv); }
