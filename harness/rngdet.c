/*
 * rngdet - determinism of the random streams.  Property C15.
 *
 * profile 0: raw stream vs independent splitmix64 -> sfc64 (+20 discards) reference
 * profile 1: pollution differential: for a fixed (seed, call program S)
 *              (a) fresh thread, no history
 *              (b) thread that first ran an arbitrary history H (ending half-way
 *                  through cached state), then re-seeded
 *              (c) thread running concurrently with 1..15 others
 *            every returned value must be bit-identical in a, b and c.
 * profile 2: like 1 but thread-heavy (used for the ThreadSanitizer build)
 */
#include "vr.h"
#include <pthread.h>
#include <math.h>
#include "cimba.h"

/* ---- independent reference generator ------------------------------------ */
struct ref { uint64_t a, b, c, d; };
static uint64_t ref_next(struct ref *s)
{
    const uint64_t tmp = s->a + s->b + s->d++;
    s->a = s->b ^ (s->b >> 11);
    s->b = s->c + (s->c << 3);
    s->c = ((s->c << 24) | (s->c >> 40)) + tmp;
    return tmp;
}
static void ref_init(struct ref *s, uint64_t seed)
{
    uint64_t sm = seed, v[4];
    for (int k = 0; k < 4; k++) {
        uint64_t z = (sm += 0x9e3779b97f4a7c15ull);
        z = (z ^ (z >> 30)) * 0xbf58476d1ce4e5b9ull;
        z = (z ^ (z >> 27)) * 0x94d049bb133111ebull;
        v[k] = z ^ (z >> 31);
    }
    s->a = v[0]; s->b = v[1]; s->c = v[2]; s->d = v[3];
    for (int k = 0; k < 20; k++) (void)ref_next(s);
}

/* ---- call programs -------------------------------------------------------- */
enum { F_SFC, F_RANDOM, F_UNIFORM, F_TRI, F_STDNORM, F_NORMAL, F_LOGNORM, F_LOGISTIC, F_CAUCHY, F_STDEXP, F_EXP,
       F_ERLANG, F_HYPO, F_HYPER, F_STDGAMMA, F_GAMMA, F_STDBETA, F_BETA, F_PERT, F_PERTMOD, F_WEIBULL, F_PARETO,
       F_CHISQ, F_FDIST, F_STDT, F_TDIST, F_RAYLEIGH, F_FLIP, F_BERN, F_GEOM, F_BINOM, F_NEGBIN, F_POISSON, F_DICE,
       F_LOADED, F_ALIAS, F_N };
static const char *fname[] = { "sfc64", "random", "uniform", "triangular", "std_normal", "normal", "lognormal", "logistic", "cauchy",
    "std_exponential", "exponential", "erlang", "hypoexponential", "hyperexponential", "std_gamma", "gamma", "std_beta", "beta", "PERT",
    "PERT_mod", "weibull", "pareto", "chisquared", "F_dist", "std_t_dist", "t_dist", "rayleigh", "flip", "bernoulli", "geometric",
    "binomial", "negative_binomial", "poisson", "dice", "loaded_dice", "alias_sample" };

struct op { int f; double p[4]; unsigned u; int vec; };
#define NVEC 4
static const double vec_m[NVEC][4] = { { 1, 2, 3, 4 }, { 0.5, 0.5, 0.5, 0.5 }, { 10, 0.1, 1, 5 }, { 2, 2, 7, 1 } };
static const double vec_p[NVEC][4] = { { 0.25, 0.25, 0.25, 0.25 }, { 0.1, 0.2, 0.3, 0.4 }, { 0.97, 0.01, 0.01, 0.01 }, { 0.5, 0.5, 0.0, 0.0 } };

static void gen_op(vr_rng *r, struct op *o)
{
    static const double shapes[] = { 0.5, 1.0, 1.5, 3.0, 7.25, 50.0 };
    o->f = (int)vr_below(r, F_N);
    for (int k = 0; k < 4; k++) o->p[k] = 0;
    o->u = 1 + (unsigned)vr_below(r, 6);
    o->vec = (int)vr_below(r, NVEC);
    switch (o->f) {
    case F_UNIFORM: o->p[0] = -3.0 + vr_unit(r); o->p[1] = o->p[0] + 0.5 + 10 * vr_unit(r); break;
    default: break;
    }
    /* one call in eight takes a parameter from the far end of its documented range (results in the subnormal range are results too) */
    if (vr_chance(r, 1, 8)) switch (o->f) {
    case F_STDGAMMA: o->p[0] = (double[]){ 0.002, 0.01, 0.3, 400.0 }[vr_below(r, 4)]; VR_CNT("calls_with_extreme_parameters"); return;
    case F_GAMMA: o->p[0] = (double[]){ 0.002, 0.01, 0.3 }[vr_below(r, 3)]; o->p[1] = vr_chance(r, 1, 2) ? 1.0 : 1e-150; VR_CNT("calls_with_extreme_parameters"); return;
    case F_STDBETA: o->p[0] = 0.002; o->p[1] = 0.5 + vr_unit(r); VR_CNT("calls_with_extreme_parameters"); return;
    case F_CHISQ: o->p[0] = 0.004; VR_CNT("calls_with_extreme_parameters"); return;
    case F_WEIBULL: o->p[0] = 0.02; o->p[1] = 1.0; VR_CNT("calls_with_extreme_parameters"); return;
    case F_EXP: o->p[0] = 1e-306; VR_CNT("calls_with_extreme_parameters"); return;
    case F_NORMAL: o->p[0] = 0.0; o->p[1] = 1e-308; VR_CNT("calls_with_extreme_parameters"); return;
    case F_RAYLEIGH: o->p[0] = 1e-307; VR_CNT("calls_with_extreme_parameters"); return;
    default: break;
    }
    switch (o->f) {
    case F_TRI: o->p[0] = 1.0; o->p[1] = 1.0 + 2 * vr_unit(r); o->p[2] = 4.0; break;
    case F_NORMAL: case F_LOGNORM: case F_LOGISTIC: case F_CAUCHY: o->p[0] = vr_unit(r) - 0.5; o->p[1] = 0.1 + 2 * vr_unit(r); break;
    case F_EXP: case F_RAYLEIGH: case F_POISSON: o->p[0] = 0.2 + 3 * vr_unit(r); break;
    case F_ERLANG: o->p[0] = 0.5 + vr_unit(r); break;
    case F_STDGAMMA: o->p[0] = shapes[1 + vr_below(r, 5)]; break;
    case F_GAMMA: case F_WEIBULL: case F_PARETO: o->p[0] = shapes[vr_below(r, 6)]; o->p[1] = 0.5 + vr_unit(r); break;
    case F_STDBETA: o->p[0] = shapes[1 + vr_below(r, 5)]; o->p[1] = shapes[1 + vr_below(r, 5)]; break;
    case F_BETA: o->p[0] = shapes[1 + vr_below(r, 5)]; o->p[1] = shapes[1 + vr_below(r, 5)]; o->p[2] = -1; o->p[3] = 2; break;
    case F_PERT: case F_PERTMOD: o->p[0] = 1; o->p[1] = 2 + vr_unit(r); o->p[2] = 5; o->p[3] = 2 + 4 * vr_unit(r); break;
    case F_CHISQ: case F_STDT: o->p[0] = shapes[vr_below(r, 6)] * 2; break;
    case F_FDIST: o->p[0] = 2 + vr_below(r, 8); o->p[1] = 3 + vr_below(r, 8); break;
    case F_TDIST: o->p[0] = 1; o->p[1] = 2; o->p[2] = 3 + vr_below(r, 5); break;
    case F_BERN: case F_GEOM: case F_BINOM: case F_NEGBIN: o->p[0] = 0.05 + 0.9 * vr_unit(r); break;
    default: break;
    }
}

static _Thread_local struct cmb_random_alias *tl_alias[NVEC];

/* run one op; returns the 64-bit pattern of the result */
static uint64_t run_op(const struct op *o)
{
    double d = 0; uint64_t u = 0; int isd = 1;
    switch (o->f) {
    case F_SFC: u = cmb_random_sfc64(); isd = 0; break;
    case F_RANDOM: d = cmb_random(); break;
    case F_UNIFORM: d = cmb_random_uniform(o->p[0], o->p[1]); break;
    case F_TRI: d = cmb_random_triangular(o->p[0], o->p[1], o->p[2]); break;
    case F_STDNORM: d = cmb_random_std_normal(); break;
    case F_NORMAL: d = cmb_random_normal(o->p[0], o->p[1]); break;
    case F_LOGNORM: d = cmb_random_lognormal(o->p[0], o->p[1]); break;
    case F_LOGISTIC: d = cmb_random_logistic(o->p[0], o->p[1]); break;
    case F_CAUCHY: d = cmb_random_cauchy(o->p[0], o->p[1]); break;
    case F_STDEXP: d = cmb_random_std_exponential(); break;
    case F_EXP: d = cmb_random_exponential(o->p[0]); break;
    case F_ERLANG: d = cmb_random_erlang(o->u, o->p[0]); break;
    case F_HYPO: d = cmb_random_hypoexponential(4, vec_m[o->vec]); break;
    case F_HYPER: d = cmb_random_hyperexponential(4, vec_m[o->vec], vec_p[o->vec]); break;
    case F_STDGAMMA: d = cmb_random_std_gamma(o->p[0]); break;
    case F_GAMMA: d = cmb_random_gamma(o->p[0], o->p[1]); break;
    case F_STDBETA: d = cmb_random_std_beta(o->p[0], o->p[1]); break;
    case F_BETA: d = cmb_random_beta(o->p[0], o->p[1], o->p[2], o->p[3]); break;
    case F_PERT: d = cmb_random_PERT(o->p[0], o->p[1], o->p[2]); break;
    case F_PERTMOD: d = cmb_random_PERT_mod(o->p[0], o->p[1], o->p[2], o->p[3]); break;
    case F_WEIBULL: d = cmb_random_weibull(o->p[0], o->p[1]); break;
    case F_PARETO: d = cmb_random_pareto(o->p[0], o->p[1]); break;
    case F_CHISQ: d = cmb_random_chisquared(o->p[0]); break;
    case F_FDIST: d = cmb_random_F_dist(o->p[0], o->p[1]); break;
    case F_STDT: d = cmb_random_std_t_dist(o->p[0]); break;
    case F_TDIST: d = cmb_random_t_dist(o->p[0], o->p[1], o->p[2]); break;
    case F_RAYLEIGH: d = cmb_random_rayleigh(o->p[0]); break;
    case F_FLIP: u = (uint64_t)cmb_random_flip(); isd = 0; break;
    case F_BERN: u = cmb_random_bernoulli(o->p[0]); isd = 0; break;
    case F_GEOM: u = cmb_random_geometric(o->p[0]); isd = 0; break;
    case F_BINOM: u = cmb_random_binomial(o->u + 3, o->p[0]); isd = 0; break;
    case F_NEGBIN: u = cmb_random_negative_binomial(o->u, o->p[0]); isd = 0; break;
    case F_POISSON: u = cmb_random_poisson(o->p[0]); isd = 0; break;
    case F_DICE: u = (uint64_t)cmb_random_dice(1, 6); isd = 0; break;
    case F_LOADED: u = cmb_random_loaded_dice(4, vec_p[o->vec]); isd = 0; break;
    case F_ALIAS:
        if (!tl_alias[o->vec]) tl_alias[o->vec] = cmb_random_alias_create(4, vec_p[o->vec]);
        u = cmb_random_alias_sample(tl_alias[o->vec]); isd = 0; break;
    }
    if (isd) memcpy(&u, &d, 8);
    return u;
}

struct job {
    uint64_t seed; const struct op *S; int ns; uint64_t *out;
    uint64_t hseed; const struct op *H; int nh; int terminate_between;
    pthread_barrier_t *bar;
    uint64_t reseeds;     /* extra seedings (no draws) between the history and the seeding that counts */
};
static void *job_body(void *vp)
{
    struct job *j = vp;
    cmb_logger_flags_off(CMB_LOGGER_INFO | CMB_LOGGER_WARNING);
    for (int k = 0; k < NVEC; k++) tl_alias[k] = NULL;
    if (j->bar) pthread_barrier_wait(j->bar);
    if (j->nh > 0) {
        cmb_random_initialize(j->hseed);
        for (int k = 0; k < j->nh; k++) (void)run_op(&j->H[k]);
        if (j->terminate_between) cmb_random_terminate();
    }
    for (uint64_t k = 0; k < j->reseeds; k++) cmb_random_initialize(j->hseed + 7u * k + 1u);
    cmb_random_initialize(j->seed);
    for (int k = 0; k < j->ns; k++) j->out[k] = run_op(&j->S[k]);
    for (int k = 0; k < NVEC; k++) if (tl_alias[k]) { cmb_random_alias_destroy(tl_alias[k]); tl_alias[k] = NULL; }
    return NULL;
}
/* the same program as trials of an experiment: worker threads (and the caller afterwards) are threads like any other */
static struct job *exp_jobs;
static void exp_trial(void *vp) { int k = *(int *)vp; struct job j = exp_jobs[k]; j.bar = NULL; job_body(&j); }
static void exp_trial_term(void *vp) { int k = *(int *)vp; struct job j = exp_jobs[k]; j.bar = NULL; job_body(&j); volatile uint64_t sink = 0; for (int q = 0; q < 40000; q++) sink += cmb_random_sfc64(); (void)sink; cmb_random_terminate(); }      /* a trial of some length that tidies up after itself */
/* ... and so is a simulated process: the program run from inside a coroutine of a fresh thread */
static void *proc_job(struct cmb_process *me, void *ctx) { (void)me; struct job *j = ctx; for (int k = 0; k < j->ns; k++) j->out[k] = run_op(&j->S[k]); return NULL; }
static void *process_job_body(void *vp)
{
    struct job *j = vp;
    cmb_logger_flags_off(CMB_LOGGER_INFO | CMB_LOGGER_WARNING);
    for (int k = 0; k < NVEC; k++) tl_alias[k] = NULL;
    cmb_random_initialize(j->seed);
    cmb_event_queue_initialize(0.0);
    struct cmb_process *p = cmb_process_create(); cmb_process_initialize(p, "sampler", proc_job, j, 0); cmb_process_start(p);
    while (cmb_event_execute_next()) { }
    cmb_process_terminate(p); cmb_process_destroy(p); cmb_event_queue_terminate();
    for (int k = 0; k < NVEC; k++) if (tl_alias[k]) { cmb_random_alias_destroy(tl_alias[k]); tl_alias[k] = NULL; }
    return NULL;
}
static void run_in_thread(struct job *j) { pthread_t t; pthread_create(&t, NULL, job_body, j); pthread_join(t, NULL); }

static uint64_t pick_seed(vr_rng *r)
{
    static const uint64_t corner[] = { 0, 1, 1ull << 63, ~0ull, 0x0000DEAD5EED0000ull, 2, 0xffffffffull };
    return vr_chance(r, 1, 4) ? corner[vr_below(r, 7)] : vr_next(r);
}

void vr_case(uint64_t seed, uint64_t idx, int profile)
{
    cmb_logger_flags_off(CMB_LOGGER_INFO | CMB_LOGGER_WARNING);
    vr_rng r = vr_rng_make(seed, idx, 0xC15);
    if (profile == 0) {
        /* raw stream against the reference, many seeds per case */
        for (int s = 0; s < 50 && vr_nviol == 0; s++) {
            uint64_t sd = (idx == 0 && s < 7) ? (uint64_t[]){ 0, 1, 1ull << 63, ~0ull, 0x0000DEAD5EED0000ull, 2, 0xffffffffull }[s] : pick_seed(&r);
            struct ref rf; ref_init(&rf, sd);
            cmb_random_initialize(sd);
            if (cmb_random_curseed() != sd) vr_violation("C15/curseed", "curseed() != seed %" PRIx64, sd);
            for (int k = 0; k < 256; k++) {
                uint64_t a = cmb_random_sfc64(), b = ref_next(&rf);
                if (a != b) { vr_violation("C15/raw-stream", "seed %#" PRIx64 " output %d: library %#" PRIx64 " reference %#" PRIx64, sd, k, a, b); break; }
            }
            /* cmb_random() is the documented mapping of the raw stream */
            { uint64_t b = ref_next(&rf); double want = ldexp((double)(b >> 11), -53), got = cmb_random(); if (memcmp(&want, &got, 8)) vr_violation("C15/unit-map", "cmb_random() is not (sfc64>>11)*2^-53 for seed %#" PRIx64, sd); }
            VR_CNT("seeds_vs_reference"); VR_ADD("raw_outputs_compared", 256);
            vr_fp_mix(sd);
        }
        vr_mark_nontrivial();
        if (idx % 50 == 0) vr_sample("raw stream: 50 seeds x 256 outputs vs splitmix64->sfc64(+20 discards) reference");
        return;
    }

    int ns = 40 + (int)vr_below(&r, 160), nh = 1 + (int)vr_below(&r, 200);
    struct op *S = calloc((size_t)ns, sizeof *S), *H = calloc((size_t)nh + 80, sizeof *H);
    for (int k = 0; k < ns; k++) { gen_op(&r, &S[k]); vr_fp_mix((uint64_t)S[k].f); VR_CNT("S_calls"); vr_cnt_dyn(fname[S[k].f], 1); }
    /* S starts with the cache users now and then, so a leftover cache is consumed first */
    if (vr_chance(&r, 1, 2)) { S[0].f = F_FLIP; S[1].f = F_FLIP; }
    if (vr_chance(&r, 1, 3)) { S[2].f = F_GEOM; S[2].p[0] = 0.3; }
    if (vr_chance(&r, 1, 3)) { S[3].f = F_STDGAMMA; S[3].p[0] = 3.0; }
    for (int k = 0; k < nh; k++) gen_op(&r, &H[k]);
    /* H ends half-way through cached state: 1..63 coin flips, a gamma with another shape, a geometric with another p */
    int tail = 1 + (int)vr_below(&r, 63);
    for (int k = 0; k < tail; k++) { H[nh].f = F_FLIP; nh++; }
    H[nh].f = F_STDGAMMA; H[nh].p[0] = 7.25; nh++;
    H[nh].f = F_GEOM; H[nh].p[0] = 0.77; nh++;
    /* half of the cases: the history ends with cached-parameter calls whose parameter is a close neighbour (1 ulp .. 1e-6 relative) of the
     * one the seeded program uses first: a cache must be keyed on the exact value */
    if (vr_chance(&r, 1, 2)) {
        static const double bases[] = { 3.0, 7.25, 25.0, 1.5, 1.0 / (0.2 * 0.2), 50.0 };
        double a = vr_chance(&r, 1, 3) ? 1.0 + 60.0 * vr_unit(&r) : bases[vr_below(&r, 6)], na;
        switch (vr_below(&r, 6)) { case 0: na = nextafter(a, 1e9); break; case 1: na = nextafter(a, 0.0); break; case 2: na = a * (1.0 + 9e-16); break;
                                   case 3: na = a * (1.0 + 1e-13); break; case 4: na = a * (1.0 - 1e-12); break; default: na = a * (1.0 + 1e-9); break; }
        double pg = 0.05 + 0.9 * vr_unit(&r), npg = vr_chance(&r, 1, 2) ? nextafter(pg, 1.0) : pg * (1.0 - 1e-13);
        /* one case in three: small success probabilities, the neighbour closer than 2.2e-16 in absolute terms (but millions of ulps away):
         * the counts are of the order 1/p, so a divisor taken from the neighbour shows in most draws */
        if (vr_chance(&r, 1, 3)) { static const double tiny[] = { 1e-8, 3e-7, 1e-5, 4e-9 }; pg = tiny[vr_below(&r, 4)] * (1.0 + vr_unit(&r)); npg = vr_chance(&r, 1, 2) ? pg + 2e-16 : pg - 1e-16; VR_CNT("histories_ending_on_a_geometric_p_closer_than_epsilon"); }
        int at = (int)vr_below(&r, 4);
        switch (vr_below(&r, 3)) { case 0: S[at].f = F_STDGAMMA; S[at].p[0] = a; break; case 1: S[at].f = F_GAMMA; S[at].p[0] = a; S[at].p[1] = 2.0; break; default: S[at].f = F_CHISQ; S[at].p[0] = 2.0 * a; na = na; break; }
        S[at + 1].f = F_GEOM; S[at + 1].p[0] = pg;
        if (na != a) { H[nh].f = F_STDGAMMA; H[nh].p[0] = na; nh++; VR_CNT("histories_ending_on_a_neighbouring_gamma_shape"); }
        if (npg != pg) { H[nh].f = F_GEOM; H[nh].p[0] = npg; nh++; VR_CNT("histories_ending_on_a_neighbouring_geometric_p"); }
    }
    VR_ADD("H_calls", nh); vr_fp_mix((uint64_t)tail);

    uint64_t sd = pick_seed(&r), hsd = pick_seed(&r);
    uint64_t *oa = calloc((size_t)ns, 8), *ob = calloc((size_t)ns, 8);
    struct job ja = { sd, S, ns, oa, 0, NULL, 0, 0, NULL };
    struct job jb = { sd, S, ns, ob, hsd, H, nh, (int)vr_below(&r, 2), NULL };
    { static const int rs[] = { 0, 0, 1, 2, 254, 255, 256, 257, 511, 512, 1000, 65535, 65536 }; jb.reseeds = (uint64_t)rs[vr_below(&r, 13)]; if (jb.reseeds >= 255) VR_CNT("histories_followed_by_255_or_more_seedings"); }
    /* profile 3: a long-lived thread that is seeded 2^32 times (one case takes minutes): 2^32 - 1, 2^32 and 2^32 + 1 seedings after the history's
     * last coin flip, the seeded program starting with coin flips */
    if (profile == 3) { jb.reseeds = 0xFFFFFFFEull + idx % 3; S[0].f = F_FLIP; S[1].f = F_FLIP; VR_CNT("histories_followed_by_2_32_seedings"); }
    run_in_thread(&ja);
    run_in_thread(&jb);
    VR_CNT("pairs_fresh_vs_polluted");
    for (int k = 0; k < ns; k++) if (oa[k] != ob[k]) {
        vr_violation("C15/history-dependence", "seed %#" PRIx64 ": call %d (%s) returned %#" PRIx64 " in a fresh thread but %#" PRIx64 " after a prior history of %d calls ending with %d coin flips + re-seed",
                     sd, k, fname[S[k].f], oa[k], ob[k], nh, tail);
        break;
    }
    if (profile == 3) { vr_mark_nontrivial(); free(oa); free(ob); free(S); free(H); return; }
    /* also: the same thread, twice in a row (main thread of this child) */
    if (vr_nviol == 0) {
        struct job jc = { sd, S, ns, ob, hsd, H, nh / 2 + 1, 0, NULL };
        memset(ob, 0, (size_t)ns * 8);
        job_body(&jc);
        VR_CNT("pairs_fresh_vs_main_thread");
        for (int k = 0; k < ns; k++) if (oa[k] != ob[k]) { vr_violation("C15/history-dependence", "seed %#" PRIx64 ": call %d (%s) differs in main thread after history", sd, k, fname[S[k].f]); break; }
    }
    /* inside a simulated process (its own floating-point environment) */
    if (vr_nviol == 0) {
        bool traps = false;      /* invalid / divide-by-zero are unmasked in a process: leave out programs whose extreme parameters can produce inf - inf or 0 * inf */
        (void)traps;
        if (!traps) {
            struct job jp = { sd, S, ns, ob, 0, NULL, 0, 0, NULL }; memset(ob, 0, (size_t)ns * 8);
            pthread_t t; pthread_create(&t, NULL, process_job_body, &jp); pthread_join(t, NULL);
            VR_CNT("pairs_fresh_thread_vs_process");
            for (int k = 0; k < ns; k++) if (oa[k] != ob[k]) { vr_violation("C15/thread-dependence", "seed %#" PRIx64 ": call %d (%s, parameter %g) returned %#" PRIx64 " in a plain thread but %#" PRIx64 " inside a simulated process", sd, k, fname[S[k].f], S[k].p[0], oa[k], ob[k]); break; }
        }
    }
    /* as trials of cimba_run_experiment (1..24 trials, all the same seeded program, different histories), and in this thread afterwards */
    if (vr_nviol == 0 && (profile == 1 || idx % 4 == 0)) {
        int ntr = 1 + (int)vr_below(&r, 24); int *ids = calloc((size_t)ntr, sizeof *ids);
        exp_jobs = calloc((size_t)ntr, sizeof *exp_jobs); uint64_t **eo = calloc((size_t)ntr, sizeof *eo);
        for (int t = 0; t < ntr; t++) { ids[t] = t; eo[t] = calloc((size_t)ns, 8); exp_jobs[t] = (struct job){ sd, S, ns, eo[t], vr_next(&r), H, (int)vr_below(&r, (uint64_t)nh), 0, NULL }; }
        cimba_run_experiment(ids, (uint64_t)ntr, sizeof *ids, exp_trial);
        for (int t = 0; t < ntr && vr_nviol == 0; t++) { VR_CNT("pairs_fresh_vs_experiment_trial");
            for (int k = 0; k < ns; k++) if (oa[k] != eo[t][k]) { vr_violation("C15/thread-dependence", "seed %#" PRIx64 ": call %d (%s, parameter %g) returned %#" PRIx64 " in a plain thread but %#" PRIx64 " in trial %d of an experiment", sd, k, fname[S[k].f], S[k].p[0], oa[k], eo[t][k], t); break; } }
        if (vr_nviol == 0) { struct job jc = { sd, S, ns, ob, 0, NULL, 0, 0, NULL }; memset(ob, 0, (size_t)ns * 8); job_body(&jc); VR_CNT("pairs_fresh_vs_caller_after_experiment");
            for (int k = 0; k < ns; k++) if (oa[k] != ob[k]) { vr_violation("C15/thread-dependence", "seed %#" PRIx64 ": call %d (%s, parameter %g) returned %#" PRIx64 " in a plain thread but %#" PRIx64 " in the thread that has run an experiment", sd, k, fname[S[k].f], S[k].p[0], oa[k], ob[k]); break; } }
        for (int t = 0; t < ntr; t++) free(eo[t]);
        free(eo); free(exp_jobs); free(ids); exp_jobs = NULL;
    }
    /* a stream in use across an experiment: this thread seeds, draws the first half of the program, runs an experiment whose trials seed
     * and terminate generators of their own, and draws the second half: the experiment is other threads' business */
    if (vr_nviol == 0 && (profile == 1 || idx % 4 == 1)) {
        for (int k = 0; k < NVEC; k++) tl_alias[k] = NULL;
        cmb_random_initialize(sd);
        int half = ns / 2; memset(ob, 0, (size_t)ns * 8);
        for (int k = 0; k < half; k++) ob[k] = run_op(&S[k]);
        int ntr = 1 + (int)vr_below(&r, 40); int *ids = calloc((size_t)ntr, sizeof *ids); exp_jobs = calloc((size_t)ntr, sizeof *exp_jobs); uint64_t *scratch = calloc((size_t)ns, 8);
        for (int t = 0; t < ntr; t++) { ids[t] = t; exp_jobs[t] = (struct job){ vr_next(&r), S, ns < 20 ? ns : 20, scratch, 0, NULL, 0, 0, NULL, 0 }; exp_jobs[t].terminate_between = 0; }
        /* (the trials write the same scratch values: same program prefix, results unused) */
        for (int t = 0; t < ntr; t++) exp_jobs[t].out = calloc(20, 8);
        cimba_run_experiment(ids, (uint64_t)ntr, sizeof *ids, exp_trial_term);
        if (cmb_random_curseed() != sd) vr_violation("C15/thread-dependence", "this thread seeded with %#" PRIx64 "; after running an experiment of %d trials cmb_random_curseed() says %#" PRIx64, sd, ntr, cmb_random_curseed());
        for (int k = half; k < ns && vr_nviol == 0; k++) ob[k] = run_op(&S[k]);
        for (int k = 0; k < ns && vr_nviol == 0; k++) if (oa[k] != ob[k]) { vr_violation("C15/thread-dependence", "seed %#" PRIx64 ": call %d (%s) returned %#" PRIx64 " in a thread of its own but %#" PRIx64 " in a thread that ran an experiment of %d trials between call %d and call %d", sd, k, fname[S[k].f], oa[k], ob[k], ntr, half - 1, half); break; }
        VR_CNT("streams_kept_across_an_experiment");
        for (int t = 0; t < ntr; t++) free(exp_jobs[t].out);
        free(scratch); free(exp_jobs); free(ids); exp_jobs = NULL;
        for (int k = 0; k < NVEC; k++) if (tl_alias[k]) { cmb_random_alias_destroy(tl_alias[k]); tl_alias[k] = NULL; }
    }
    /* concurrent: nt threads, thread 0 runs (sd,S), others run their own programs */
    if (vr_nviol == 0) {
        int nt = profile == 2 ? 4 + (int)vr_below(&r, 13) : 2 + (int)vr_below(&r, 7);
        pthread_barrier_t bar; pthread_barrier_init(&bar, NULL, (unsigned)nt);
        struct job *js = calloc((size_t)nt, sizeof *js); pthread_t *ts = calloc((size_t)nt, sizeof *ts);
        uint64_t **outs = calloc((size_t)nt, sizeof *outs), **solo = calloc((size_t)nt, sizeof *solo);
        struct op **progs = calloc((size_t)nt, sizeof *progs);
        for (int t = 0; t < nt; t++) {
            progs[t] = calloc((size_t)ns, sizeof(struct op));
            if (t == 0) memcpy(progs[t], S, (size_t)ns * sizeof *S); else for (int k = 0; k < ns; k++) gen_op(&r, &progs[t][k]);
            outs[t] = calloc((size_t)ns, 8); solo[t] = calloc((size_t)ns, 8);
            js[t] = (struct job){ t == 0 ? sd : pick_seed(&r), progs[t], ns, outs[t], vr_next(&r), H, (int)vr_below(&r, (uint64_t)nh), 0, &bar };
        }
        for (int t = 0; t < nt; t++) pthread_create(&ts[t], NULL, job_body, &js[t]);
        for (int t = 0; t < nt; t++) pthread_join(ts[t], NULL);
        VR_ADD("concurrent_threads", nt); VR_MAX("max_threads_at_once", nt);
        for (int t = 0; t < nt && vr_nviol == 0; t++) {
            struct job s1 = js[t]; s1.out = solo[t]; s1.nh = 0; s1.bar = NULL;
            run_in_thread(&s1);
            for (int k = 0; k < ns; k++) if (outs[t][k] != solo[t][k]) {
                vr_violation("C15/thread-dependence", "seed %#" PRIx64 ": call %d (%s) returned %#" PRIx64 " solo but %#" PRIx64 " when run beside %d other threads",
                             js[t].seed, k, fname[progs[t][k].f], solo[t][k], outs[t][k], nt - 1);
                break;
            }
            VR_CNT("pairs_solo_vs_concurrent");
        }
        pthread_barrier_destroy(&bar);
    }
    vr_mark_nontrivial();
    if (idx % 101 == 0) vr_sample("seed=%#" PRIx64 " S=%d calls starting [%s,%s,%s,%s,..] H=%d calls ending with %d flips+gamma(7.25)+geometric(0.77), hseed=%#" PRIx64,
                                  sd, ns, fname[S[0].f], fname[S[1].f], fname[S[2].f], fname[S[3].f], nh, tail, hsd);
}

int main(int argc, char **argv) { return vr_main(argc, argv); }
