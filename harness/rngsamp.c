/*
 * rngsamp - dumb sampler used by rngdist.py (property C16):
 *     rngsamp <seed> <N> <sampler> [params...]   -> N raw doubles on stdout
 * Vector parameters are given as  n v1..vn  (hypoexponential: n means;
 * hyperexponential: n means then n probs; loaded_dice / alias: n probs).
 * Runs in the dispatcher context of a plain process (all FP exceptions masked),
 * so a NaN produced by a sampler is *reported* (as a NaN sample) rather than
 * turned into SIGFPE.
 */
#include <stdio.h>
#include <stdlib.h>
#include <string.h>
#include <stdint.h>
#include <limits.h>
#include "cimba.h"

static int sampler_main(int argc, char **argv);
static int inproc_argc, inproc_rc; static char **inproc_argv;
static void *inproc_body(struct cmb_process *me, void *ctx) { (void)me; (void)ctx; inproc_rc = sampler_main(inproc_argc, inproc_argv); return NULL; }
int main(int argc, char **argv) { return sampler_main(argc, argv); }
static int sampler_main(int argc, char **argv)
{
    if (argc < 4) return 2;
    cmb_logger_flags_off(CMB_LOGGER_INFO | CMB_LOGGER_WARNING);
    uint64_t seed = strtoull(argv[1], NULL, 0);
    size_t n = strtoull(argv[2], NULL, 0);
    const char *s = argv[3];
    static double p[4096]; int np = 0;
    for (int i = 4; i < argc && np < 4096; i++) p[np++] = strtod(argv[i], NULL);
    cmb_random_initialize(seed);
    double *out = malloc(4096 * sizeof *out);
    struct cmb_random_alias *al = NULL;
    unsigned vn = np > 0 ? (unsigned)p[0] : 0;
    if (!strcmp(s, "alias")) al = cmb_random_alias_create(vn, p + 1);
    size_t done = 0;
    /* "proc:<sampler>": the same, drawn by a simulated process (invalid and divide-by-zero exceptions unmasked: a 0/0 inside a sampler ends the program) */
    if (!strncmp(s, "proc:", 5)) { inproc_argc = argc; inproc_argv = argv; argv[3] += 5;
        cmb_event_queue_initialize(0.0);
        struct cmb_process *pr = cmb_process_create(); cmb_process_initialize(pr, "sampler", inproc_body, NULL, 0); cmb_process_start(pr);
        while (cmb_event_execute_next()) { }
        return inproc_rc; }
    while (done < n) {
        size_t m = n - done < 4096 ? n - done : 4096;
        for (size_t k = 0; k < m; k++) {
            double x;
            if (!strcmp(s, "random")) x = cmb_random();
            else if (!strcmp(s, "uniform")) x = cmb_random_uniform(p[0], p[1]);
            else if (!strcmp(s, "triangular")) x = cmb_random_triangular(p[0], p[1], p[2]);
            else if (!strcmp(s, "std_normal")) x = cmb_random_std_normal();
            else if (!strcmp(s, "normal")) x = cmb_random_normal(p[0], p[1]);
            else if (!strcmp(s, "lognormal")) x = cmb_random_lognormal(p[0], p[1]);
            else if (!strcmp(s, "logistic")) x = cmb_random_logistic(p[0], p[1]);
            else if (!strcmp(s, "cauchy")) x = cmb_random_cauchy(p[0], p[1]);
            else if (!strcmp(s, "std_exponential")) x = cmb_random_std_exponential();
            else if (!strcmp(s, "exponential")) x = cmb_random_exponential(p[0]);
            else if (!strcmp(s, "erlang")) x = cmb_random_erlang((unsigned)p[0], p[1]);
            else if (!strcmp(s, "hypoexponential")) x = cmb_random_hypoexponential(vn, p + 1);
            else if (!strcmp(s, "hyperexponential")) x = cmb_random_hyperexponential(vn, p + 1, p + 1 + vn);
            else if (!strcmp(s, "std_gamma")) x = cmb_random_std_gamma(p[0]);
            else if (!strcmp(s, "std_gamma_after")) { (void)cmb_random_std_gamma(p[0]); x = cmb_random_std_gamma(p[1]); }     /* always preceded by a draw with another shape */
            else if (!strcmp(s, "gamma")) x = cmb_random_gamma(p[0], p[1]);
            else if (!strcmp(s, "std_beta")) x = cmb_random_std_beta(p[0], p[1]);
            else if (!strcmp(s, "beta")) x = cmb_random_beta(p[0], p[1], p[2], p[3]);
            else if (!strcmp(s, "PERT")) x = cmb_random_PERT(p[0], p[1], p[2]);
            else if (!strcmp(s, "PERT_mod")) x = cmb_random_PERT_mod(p[0], p[1], p[2], p[3]);
            else if (!strcmp(s, "weibull")) x = cmb_random_weibull(p[0], p[1]);
            else if (!strcmp(s, "pareto")) x = cmb_random_pareto(p[0], p[1]);
            else if (!strcmp(s, "chisquared")) x = cmb_random_chisquared(p[0]);
            else if (!strcmp(s, "F_dist")) x = cmb_random_F_dist(p[0], p[1]);
            else if (!strcmp(s, "std_t_dist")) x = cmb_random_std_t_dist(p[0]);
            else if (!strcmp(s, "t_dist")) x = cmb_random_t_dist(p[0], p[1], p[2]);
            else if (!strcmp(s, "rayleigh")) x = cmb_random_rayleigh(p[0]);
            else if (!strcmp(s, "flip")) x = (double)cmb_random_flip();
            else if (!strcmp(s, "bernoulli")) x = (double)cmb_random_bernoulli(p[0]);
            else if (!strcmp(s, "geometric")) x = (double)cmb_random_geometric(p[0]);
            else if (!strcmp(s, "binomial")) x = (double)cmb_random_binomial((unsigned)p[0], p[1]);
            else if (!strcmp(s, "negative_binomial")) x = (double)cmb_random_negative_binomial((unsigned)p[0], p[1]);
            else if (!strcmp(s, "pascal")) x = (double)cmb_random_pascal((unsigned)p[0], p[1]);
            else if (!strcmp(s, "poisson")) x = (double)cmb_random_poisson(p[0]);
            else if (!strcmp(s, "dice")) x = (double)cmb_random_dice((long)p[0], (long)p[1]);
            /* dice on [base, base + width] for bases a double cannot carry: the offset from the base is reported (computed in integers) */
            else if (!strcmp(s, "dice_at")) { static const long bases[] = { 1L << 53, LONG_MAX - 5, LONG_MIN, -(1L << 53) - 7, 1000000000000000L, (1L << 62) + 1 };
                long b0 = bases[(int)p[0]], w = (long)p[1]; long r = cmb_random_dice(b0, b0 + w); x = (double)(long)((unsigned long)r - (unsigned long)b0); }
            else if (!strcmp(s, "loaded_dice")) x = (double)cmb_random_loaded_dice(vn, p + 1);
            else if (!strcmp(s, "alias")) x = (double)cmb_random_alias_sample(al);
            else { fprintf(stderr, "unknown sampler %s\n", s); return 2; }
            out[k] = x;
        }
        if (fwrite(out, sizeof *out, m, stdout) != m) return 3;
        done += m;
    }
    return 0;
}
