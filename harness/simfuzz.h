/*
 * simfuzz.h - shared declarations of the scenario engine (DESIGN.md 3.1).
 */
#ifndef SIMFUZZ_H
#define SIMFUZZ_H
#include "vr.h"
#include <math.h>
#include "cimba.h"
#include "cmb_priorityqueue.h"
#include "cmi_hashheap.h"

extern struct cmi_hashheap *cmi_verif_event_queue(void);

#define MAXP 200
#define MAXO 2
#define MAXLED 4096
#define MAXEV 64

/* signal value classes: the value identifies the kind of cause */
/* timers may carry any non-zero value, including the library's own codes: -5, 21, 22, CANCELLED (-4), STOPPED (-3) */
static inline int64_t SIG_TIMER(int k) { return k == 0 ? CMB_PROCESS_TIMEOUT : k == 3 ? CMB_PROCESS_CANCELLED : k == 4 ? CMB_PROCESS_STOPPED : (int64_t)(20 + k); }
static inline int64_t SIG_INTR(int k) { return k == 0 ? CMB_PROCESS_INTERRUPTED : (int64_t)(30 + k); }   /* -2, 31, 32 */
static inline int64_t SIG_RESUME(int k) { return (int64_t)(41 + k); }
static inline bool sig_is_timer(int64_t s) { return s == CMB_PROCESS_TIMEOUT || (s >= 21 && s <= 29); }
static inline bool sig_is_intr(int64_t s) { return s == CMB_PROCESS_INTERRUPTED || (s >= 31 && s <= 39); }

enum callkind { K_NONE, K_HOLD, K_YIELD, K_WAITPROC, K_WAITEV, K_RACQ, K_RPRE, K_PACQ, K_PPRE, K_BPUT, K_BGET,
                K_OQPUT, K_OQGET, K_PQPUT, K_PQGET, K_CWAIT, K_GWAIT, K_N };
static const char *const callname[] = { "none", "hold", "yield", "wait_process", "wait_event", "resource_acquire", "resource_preempt",
    "pool_acquire", "pool_preempt", "buffer_put", "buffer_get", "objectqueue_put", "objectqueue_get", "priorityqueue_put",
    "priorityqueue_get", "condition_wait", "guard_wait_custom_demand" };

enum ledkind { L_INTERRUPT, L_TIMER, L_HOLDTIMER, L_PREEMPT, L_AWAITED, L_EVCANCEL, L_CCANCEL, L_RESUME };
static const char *const ledname[] = { "interrupt", "timer", "hold-timer", "preempt", "awaited-end", "event-cancelled", "condition-cancel", "resume" };
enum { LS_DEAD, LS_LIVE, LS_MAYBE };
struct led { int tgt, kind, obj, state; int64_t val; double t; uint64_t seq, handle; };

enum predkind { PR_FLAG, PR_RESFREE, PR_POOLAVAIL, PR_BUFGE, PR_BUFLE, PR_OQGE, PR_PQGE, PR_OQLE, PR_PQLE, PR_POOLBUSY };
struct pred { int kind, obj; uint64_t n; int cv; };

enum route { RT_NONE, RT_RETURN, RT_EXIT, RT_STOP, RT_STOPSELF };
static const char *const routename[] = { "none", "return", "exit", "stop-by-other", "stop-self" };

struct call {
    int kind, obj; double t_call, dur; uint64_t amount, req; int target; uint64_t evh; uint64_t seq;
    uint64_t moved;         /* buffers: amount attributed so far */
    uint64_t held_before;   /* pools */
    struct pred pred;       /* conditions */
    int64_t pri;            /* pq put */
    void *val;
    bool waited;            /* was seen in a waiting list during the call */
    uint64_t first_arr; double first_et;   /* arrival number / entry time of its first waiting-list entry */
    uint64_t last_arr; double last_et; uint64_t served_mark; int last_gd;   /* its latest entry, where, and how much the call had been served with when that entry was seen */
    bool granted_flag;
    bool obs_changed;       /* conditions: the set of observed guards changed while waiting */
    int dkind;              /* guard waits with an own demand: 0 "amount units free at once", 1 "user flag <amount> is up" */
};

struct P {
    int id; struct cmb_process *pp; vr_rng rng; int64_t prio;
    bool created, start_pending, active, ended; int route; void *end_value; double end_time; uint64_t end_seq;
    int generation;
    bool in_call; struct call call;
    uint64_t buf_amt;                                  /* the amount variable of a buffer call in progress (outlives a stop) */
    bool buf_open;                                     /* ... and whether that call's account is still open (not yet added to the totals below) */
    bool own_res[MAXO]; uint64_t own_pool[MAXO];       /* the script's own bookkeeping, from return codes */
    uint64_t my_timers[6]; int n_my_timers;
    int steps, max_steps;
    bool bare_yield;
    bool cond_removed;       /* taken out of a condition queue without being resumed */
    bool cw_seen_true; double cw_seen_t;
    bool preempt_due; double preempt_due_t;
    int kindbias;
    uint64_t objctr;
    int64_t last_sig;
    int follow_hold;         /* do a checked hold right after a non-success return */
};

#endif
