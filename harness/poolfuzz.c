/*
 * poolfuzz - alloc/free histories on cmi_mempool with a shadow map.  Property C20.
 *
 * profile 0: dynamic pools, random geometry      (obj sizes x objs per chunk)
 * profile 1: dynamic pools pushed across the 64-chunk list growth (and 128/129)
 * profile 2: the library's own thread-local static pools (awaitable / holdable /
 *            waiter tags), in the main thread and in short-lived threads
 */
#include "vr.h"
#include <pthread.h>
#include "cimba.h"
#include "cmi_mempool.h"
#include "cmi_process.h"

struct live { unsigned char *p; uint64_t pat; };
static struct live *L; static size_t ln, lcap;
static size_t obj_sz;
static struct cmi_mempool *mp;

static void fill(unsigned char *p, uint64_t pat) { for (size_t k = 0; k < obj_sz; k += 8) { uint64_t v = pat + k; memcpy(p + k, &v, 8); } }
static bool verify(const unsigned char *p, uint64_t pat) { for (size_t k = 0; k < obj_sz; k += 8) { uint64_t v; memcpy(&v, p + k, 8); if (v != pat + k) return false; } return true; }

static bool in_some_chunk(const unsigned char *p)
{
    for (uint64_t c = 0; c < mp->chunk_list_cnt; c++) {
        const unsigned char *b = mp->chunk_list[c];
        if (p >= b && p + obj_sz <= b + mp->incr_sz) return true;
    }
    return false;
}

/* sorted-by-address check is O(n log n); we use a simple hash of addresses for dup detection and an interval check against neighbours via sort at audits */
static int cmp_live(const void *a, const void *b) { const struct live *x = a, *y = b; return x->p < y->p ? -1 : x->p > y->p; }

static bool audit(const char *when)
{
    VR_CNT("audits");
    struct live *s = malloc((ln ? ln : 1) * sizeof *s);
    memcpy(s, L, ln * sizeof *s);
    qsort(s, ln, sizeof *s, cmp_live);
    bool ok = true;
    for (size_t k = 0; k < ln && ok; k++) {
        if (k + 1 < ln && s[k].p + obj_sz > s[k + 1].p) { vr_violation("C20/overlap", "%s: live objects %p and %p overlap (obj_sz %zu)", when, (void *)s[k].p, (void *)s[k + 1].p, obj_sz); ok = false; }
        else if (!verify(s[k].p, s[k].pat)) { vr_violation("C20/content-changed", "%s: live object %p lost its contents (obj_sz %zu, %zu live)", when, (void *)s[k].p, obj_sz, ln); ok = false; }
        else if (!in_some_chunk(s[k].p)) { vr_violation("C20/outside-chunks", "%s: live object %p lies outside every chunk", when, (void *)s[k].p); ok = false; }
    }
    free(s);
    return ok;
}

static uint64_t patctr;
static bool do_alloc(void)
{
    uint64_t chunks_before = mp->chunk_list_cnt, len_before = mp->chunk_list_len;
    unsigned char *p = cmi_mempool_alloc(mp);
    VR_CNT("allocs");
    if (mp->chunk_list_cnt != chunks_before) { VR_CNT("expansions"); VR_MAX("max_chunks", mp->chunk_list_cnt); }
    if (mp->chunk_list_len != len_before && len_before != 0) VR_CNT("chunk_list_growths");
    if (p == NULL) { vr_violation("C20/null", "alloc returned NULL"); return false; }
    if (((uintptr_t)p & 7u) != 0) { vr_violation("C20/misaligned", "alloc returned %p", (void *)p); return false; }
    if (ln == lcap) { lcap = lcap ? lcap * 2 : 256; L = realloc(L, lcap * sizeof *L); }
    L[ln].p = p; L[ln].pat = vr_mix(++patctr) & ~0xfffull;
    fill(p, L[ln].pat);
    ln++;
    VR_MAX("max_live", ln);
    return true;
}
static bool do_free(size_t k)
{
    if (!verify(L[k].p, L[k].pat)) { vr_violation("C20/content-changed", "at free: object %p lost its contents (obj_sz %zu, %zu live, %" PRIu64 " chunks)", (void *)L[k].p, obj_sz, ln, mp->chunk_list_cnt); return false; }
    cmi_mempool_free(mp, L[k].p);
    VR_CNT("frees");
    L[k] = L[ln - 1]; ln--;
    return true;
}

static void history(vr_rng *r, size_t target, int churn_ops)
{
    /* ramp, churn, drain, with audits; duplicate-address detection through the overlap audit */
    while (ln < target) { if (!do_alloc()) return; if ((ln & 1023) == 0 && !audit("ramp")) return; }
    if (!audit("after ramp")) return;
    for (int k = 0; k < churn_ops; k++) {
        if (ln > 0 && vr_chance(r, 1, 2)) { if (!do_free(vr_below(r, ln))) return; }
        else if (!do_alloc()) return;
        if ((k % 997) == 0 && !audit("churn")) return;
    }
    if (!audit("after churn")) return;
    /* drain part or all, then re-ramp to see recycled objects */
    size_t keep = vr_chance(r, 1, 2) ? 0 : ln / 3;
    while (ln > keep) if (!do_free(vr_below(r, ln))) return;
    size_t again = target / 2 + 1;
    while (ln < again) if (!do_alloc()) return;
    if (!audit("after re-ramp")) return;
    while (ln > 0) if (!do_free(ln - 1)) return;
}

struct targ { uint64_t seed, idx; int which; };
static void *thread_body(void *vp)
{
    struct targ *a = vp;
    vr_rng r = vr_rng_make(a->seed, a->idx, 0x7000 + (uint64_t)a->which);
    struct cmi_mempool *pools[3] = { &cmi_process_awaitabletags, &cmi_process_holdabletags, &cmi_process_waitertags };
    static const size_t szs[3] = { sizeof(struct cmi_process_awaitable), sizeof(struct cmi_process_holdable), sizeof(struct cmi_process_waiter) };
    pthread_cleanup_push(cmi_mempool_cleanup, NULL);
    mp = pools[a->which]; obj_sz = szs[a->which]; ln = 0;
    size_t per_chunk = (a->which == 0) ? 128 : 256;
    size_t target = per_chunk * (1 + vr_below(&r, 3)) + vr_below(&r, 5);
    history(&r, target, 2000);
    pthread_cleanup_pop(1);
    return NULL;
}

struct hand_over { vr_rng *r; size_t target; int churn; };
static void *history_in_thread(void *vp) { struct hand_over *h = vp; cmb_logger_flags_off(CMB_LOGGER_INFO | CMB_LOGGER_WARNING); history(h->r, h->target, h->churn); return NULL; }
void vr_case(uint64_t seed, uint64_t idx, int profile)
{
    cmb_logger_flags_off(CMB_LOGGER_INFO | CMB_LOGGER_WARNING);
    vr_rng r = vr_rng_make(seed, idx, 0xC20);
    static const size_t sizes[] = { 8, 16, 24, 40, 64, 200, 4096, 4104 };
    static const uint64_t perchunk[] = { 1, 3, 64, 256 };
    vr_fp_mix((uint64_t)profile);
    if (profile == 2) {
        int which = (int)vr_below(&r, 3);
        struct targ a = { seed, idx, which };
        vr_fp_mix((uint64_t)which);
        if (vr_chance(&r, 1, 2)) { thread_body(&a); cmi_mempool_cleanup(NULL); VR_CNT("static_pool_main_thread"); vr_fp_mix(1); }
        else { pthread_t t; pthread_create(&t, NULL, thread_body, &a); pthread_join(t, NULL); VR_CNT("static_pool_worker_thread"); vr_fp_mix(2); }
        vr_fp_mix(vr_next(&r) & 0xff);
        vr_mark_nontrivial();
        return;
    }
    obj_sz = sizes[vr_below(&r, 8)];
    uint64_t pc = perchunk[vr_below(&r, 4)];
    if (profile == 1) { /* force many chunks cheaply */
        obj_sz = sizes[vr_below(&r, 6)];
        pc = perchunk[vr_below(&r, 2)];
        if (obj_sz <= 200 && vr_chance(&r, 1, 2)) pc = 4096 / obj_sz;     /* exactly one page per chunk */
    }
    /* the pool struct comes from the library, or it is the caller's own storage with whatever was in it before */
    bool own_storage = vr_chance(&r, 1, 3);
    if (own_storage) { mp = malloc(sizeof *mp); memset(mp, 0xA5, sizeof *mp); VR_CNT("pools_in_previously_used_storage"); } else mp = cmi_mempool_create();
    cmi_mempool_initialize(mp, obj_sz, pc);
    uint64_t per = mp->incr_num;
    static const uint64_t chunk_targets[] = { 1, 2, 3, 63, 64, 65, 66, 128, 129, 130 };
    uint64_t ct = profile == 1 ? chunk_targets[3 + vr_below(&r, 7)] : chunk_targets[vr_below(&r, 4)];
    /* one case in three of the many-chunk profile goes on past the later growths of the chunk list (whatever its growth policy: +64 each time gives
     * 192, 256, 320 ..., doubling gives 256, 512) */
    if (profile == 1 && vr_chance(&r, 1, 3)) { static const uint64_t far_targets[] = { 191, 192, 193, 194, 255, 256, 257, 258, 300, 320, 321, 385, 513, 700 }; ct = far_targets[vr_below(&r, 14)]; VR_CNT("cases_crossing_later_chunk_list_growths"); }
    if (profile == 0 && per * ct > 40000) ct = 1;
    size_t target = (size_t)(per * (ct - 1) + 1 + vr_below(&r, per));
    if (target > 600000) target = 600000;
    vr_fp_mix(obj_sz); vr_fp_mix(pc); vr_fp_mix(ct); vr_fp_mix(target);
    ln = 0;
    /* one pool in six is prepared here and then handed to a fresh thread that does all the allocating (a pool set up by the main program
     * for one worker: no sharing, just another thread than the one that initialised it) */
    if (vr_chance(&r, 1, 6)) { struct hand_over h = { &r, target, profile == 1 ? 3000 : 1500 }; pthread_t t; pthread_create(&t, NULL, history_in_thread, &h); pthread_join(t, NULL); VR_CNT("pools_initialised_here_and_used_by_another_thread"); }
    else
    history(&r, target, profile == 1 ? 3000 : 1500);
    /* second and third lives: the same pool struct terminated (with everything on its free list, or with objects still out) and
     * initialised again with another geometry must start empty */
    for (int life = 0; life < 2 && vr_nviol == 0 && vr_chance(&r, 1, 2); life++) {
        if (vr_chance(&r, 1, 2)) { size_t some = 1 + vr_below(&r, 300); while (ln < some) if (!do_alloc()) return; if (vr_chance(&r, 1, 2)) while (ln > some / 2) if (!do_free(vr_below(&r, ln))) return; VR_CNT("pools_terminated_with_objects_out"); }
        cmi_mempool_terminate(mp); ln = 0;
        obj_sz = sizes[vr_below(&r, 8)]; pc = perchunk[vr_below(&r, 4)];
        cmi_mempool_initialize(mp, obj_sz, pc);
        if (mp->chunk_list_cnt != 0) vr_violation("C20/reinitialised-not-empty", "a re-initialised pool starts with %" PRIu64 " chunk(s)", mp->chunk_list_cnt);
        size_t t2 = (size_t)(mp->incr_num * (1 + vr_below(&r, 3)) + 1); if (t2 > 20000) t2 = 20000;
        VR_CNT("pools_reinitialised"); vr_fp_mix(0x11fe + obj_sz);
        history(&r, t2, 400);
    }
    if (vr_nviol == 0) { if (own_storage) { cmi_mempool_terminate(mp); free(mp); } else cmi_mempool_destroy(mp); VR_CNT("pools_destroyed"); }
    if (ct >= 2) vr_mark_nontrivial();
    if (ct >= 64) VR_CNT("cases_crossing_64_chunks");
    if (idx % 37 == 0) vr_sample("profile=%d obj_sz=%zu objs_per_chunk=%" PRIu64 " (fits %" PRIu64 ") chunk_target=%" PRIu64 " ramp_to=%zu", profile, obj_sz, pc, per, ct, target);
}

int main(int argc, char **argv) { return vr_main(argc, argv); }
