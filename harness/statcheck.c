/*
 * statcheck - data summaries, datasets and time series against exact references
 * and definitional predicates.                          Properties C17, C18.
 *
 * profile 0: C17 unweighted summaries: add, merge (all shapes), vs __float128 two-pass
 * profile 1: C17 weighted summaries: exact mean, zero weights, ones == unweighted, scale invariance, merge
 * profile 2: C18 sort / copy / median / five-number (dataset and time series)
 * profile 3: C18 histograms (dataset via cmi_dataset_histogram_*, time series via printed bars)
 * profile 4: C18 ACF / PACF: lag 0, invariance under x -> a*x + b
 * Everything runs in the dispatcher context of a plain process: FP exceptions masked.
 */
#include "vr.h"
#include <math.h>
#include <float.h>
#include <quadmath.h>
#include "cimba.h"
#include "cmi_dataset.h"

typedef __float128 q_t;

/* ------------------------------------------------------------ generators --- */
enum { G_UNIFORM, G_HEAVY, G_CONST, G_TWOVAL, G_OFFSET, G_BIG, G_SMALL, G_INTS, G_SORTED, G_REVSORTED, G_N };
static const char *gname[] = { "uniform", "heavy-tailed", "constant", "two-valued", "offset1e9", "magnitude1e60", "magnitude1e-60", "small-ints", "sorted", "reverse-sorted" };

static void gen_data(vr_rng *r, int cls, double *x, size_t n)
{
    double base = vr_unit(r) * 10 - 5;
    for (size_t k = 0; k < n; k++) {
        double u = vr_unit(r);
        switch (cls) {
        case G_UNIFORM: x[k] = base + u * 4; break;
        case G_HEAVY: { double v = 1.0 / (1e-6 + vr_unit(r)); x[k] = (vr_chance(r, 1, 2) ? v : -v) * 0.01; break; }
        case G_CONST: x[k] = base; break;
        case G_TWOVAL: x[k] = vr_chance(r, 1, 3) ? 5.0 : 6.0; break;
        case G_OFFSET: x[k] = 1e9 + u; break;
        case G_BIG: x[k] = (u - 0.5) * 1e60; break;
        case G_SMALL: x[k] = (u - 0.3) * 1e-60; break;
        case G_INTS: x[k] = (double)vr_below(r, 7); break;
        case G_SORTED: x[k] = (double)k * 0.25 + base; break;
        case G_REVSORTED: x[k] = base - (double)k * 0.25; break;
        }
    }
}
static size_t pick_len(vr_rng *r)
{
    unsigned w = (unsigned)vr_below(r, 100);
    if (w < 30) return vr_below(r, 5);                /* 0..4 */
    if (w < 75) return 5 + vr_below(r, 46);           /* 5..50 */
    if (w < 97) return 1000 + vr_below(r, 4000);
    return 10000 + vr_below(r, 90000);
}

/* ------------------------------------------------ exact reference (C17) --- */
struct ref { size_t n; double mn, mx; q_t mean, var, skew, kurt, popvar; bool var_ok, skew_ok, kurt_ok; };
static void ref_stats(const double *x, size_t n, struct ref *o)
{
    memset(o, 0, sizeof *o); o->n = n; o->mn = DBL_MAX; o->mx = -DBL_MAX;
    if (n == 0) return;
    q_t s = 0; for (size_t k = 0; k < n; k++) { s += x[k]; if (x[k] < o->mn) o->mn = x[k]; if (x[k] > o->mx) o->mx = x[k]; }
    q_t m = s / (q_t)n, m2 = 0, m3 = 0, m4 = 0;
    for (size_t k = 0; k < n; k++) { q_t d = (q_t)x[k] - m; q_t d2 = d * d; m2 += d2; m3 += d2 * d; m4 += d2 * d2; }
    o->mean = m; o->popvar = m2 / (q_t)n;
    q_t dn = (q_t)n;
    if (n > 1) { o->var = m2 / (dn - 1); o->var_ok = true; }
    if (n > 2 && m2 > 0) { q_t g = sqrtq(dn) * m3 / powq(m2, 1.5Q); o->skew = sqrtq(dn * (dn - 1)) * g / (dn - 2); o->skew_ok = true; }
    if (n > 3 && m2 > 0) { q_t g = dn * m4 / (m2 * m2) - 3; o->kurt = (dn - 1) / ((dn - 2) * (dn - 3)) * ((dn + 1) * g + 6); o->kurt_ok = true; }
}
static double worst_ratio;    /* max observed |err| / bound */
/* compare a library statistic with the exact one; p = 1..4 */
static bool close_enough(double lib, q_t exact, const struct ref *rf, int p, q_t scale, const char *what, const char *ctx)
{
    if (rf->popvar <= 0) return true;                               /* degenerate denominators are not compared */
    q_t kappa = sqrtq(1 + rf->mean * rf->mean / rf->popvar);
    q_t bound = (q_t)(rf->n < 64 ? 64 : rf->n) * 0x1p-49Q * powq(kappa, (q_t)p);
    if (p >= 3 && rf->n < 12) bound *= 16;    /* finite-sample corrections (5g+6 at n=4) cancel catastrophically in any double evaluation */
    if (bound > 0.05Q) { VR_CNT("ill_conditioned_skipped"); return true; }
    if (scale <= 0) return true;
    q_t err = fabsq((q_t)lib - exact) / scale;
    if (!(lib == lib) || err > bound) {
        char kbuf[64]; snprintf(kbuf, sizeof kbuf, "C17/%s", what);
        vr_violation(kbuf, "%s: library %.17g exact %.17g (n=%zu, relative error %.3g, bound %.3g)", ctx, lib, (double)exact, rf->n, (double)err, (double)bound);
        return false;
    }
    double ratio = (double)(err / bound); if (ratio > worst_ratio) worst_ratio = ratio;
    if (ratio > 0.2 && getenv("VR_DEBUG_RATIO")) fprintf(stderr, "RATIO %.3f %s %s n=%zu kappa=%.3g lib=%.17g exact=%.17g\n", ratio, what, ctx, rf->n, (double)kappa, lib, (double)exact);
    return true;
}
static bool check_summary(const struct cmb_datasummary *s, const double *x, size_t n, const char *ctx)
{
    struct ref rf; ref_stats(x, n, &rf);
    if (cmb_datasummary_count(s) != n) { vr_violation("C17/count", "%s: count %" PRIu64 " expected %zu", ctx, cmb_datasummary_count(s), n); return false; }
    if (n == 0) return true;
    if (cmb_datasummary_min(s) != rf.mn || cmb_datasummary_max(s) != rf.mx) { vr_violation("C17/minmax", "%s: min/max %g/%g expected %g/%g", ctx, cmb_datasummary_min(s), cmb_datasummary_max(s), rf.mn, rf.mx); return false; }
    q_t sd = sqrtq(rf.popvar);
    q_t mscale = fabsq(rf.mean) > sd ? fabsq(rf.mean) : sd;
    if (rf.popvar > 0) { if (!close_enough(cmb_datasummary_mean(s), rf.mean, &rf, 1, mscale, "mean", ctx)) return false; }
    else if (!(fabs(cmb_datasummary_mean(s) - x[0]) <= 4 * DBL_EPSILON * fabs(x[0]))) { vr_violation("C17/mean", "%s: constant data %g, mean %g", ctx, x[0], cmb_datasummary_mean(s)); return false; }
    if (rf.var_ok && !close_enough(cmb_datasummary_variance(s), rf.var, &rf, 2, rf.var, "variance", ctx)) return false;
    if (rf.var_ok && rf.popvar > 0 && !close_enough(cmb_datasummary_stddev(s), sqrtq(rf.var), &rf, 2, sqrtq(rf.var), "stddev", ctx)) return false;
    if (rf.skew_ok && !close_enough(cmb_datasummary_skewness(s), rf.skew, &rf, 3, fabsq(rf.skew) > 1 ? fabsq(rf.skew) : 1, "skewness", ctx)) return false;
    if (rf.kurt_ok && !close_enough(cmb_datasummary_kurtosis(s), rf.kurt, &rf, 4, fabsq(rf.kurt) > 1 ? fabsq(rf.kurt) : 1, "kurtosis", ctx)) return false;
    VR_CNT("summaries_vs_exact");
    return true;
}

/* summaries of very many samples: built by merging a small summary with itself k times (count 2^k times the base), two of them merged.
 * Exact reference: replicating data leaves mean and central moments per sample unchanged; pooling two groups is textbook. */
static void c17_huge_counts(vr_rng *r)
{
    double xa[6], xb[6]; size_t na = 2 + vr_below(r, 5), nb = 2 + vr_below(r, 5);
    for (size_t k = 0; k < na; k++) xa[k] = (double)vr_below(r, 9) - 2.0;
    for (size_t k = 0; k < nb; k++) xb[k] = 10.0 + (double)vr_below(r, 9) * 0.5;
    xa[0] = -2.0; xa[1] = 6.0; xb[0] = 10.0; xb[1] = 14.0;      /* no constant groups */
    int ka = 20 + (int)vr_below(r, 15), kb = 20 + (int)vr_below(r, 15);          /* counts 2^20 .. 2^34 times the base: products up to 2^70 */
    struct cmb_datasummary *a = cmb_datasummary_create(), *b = cmb_datasummary_create(), *t = cmb_datasummary_create();
    for (size_t k = 0; k < na; k++) cmb_datasummary_add(a, xa[k]);
    for (size_t k = 0; k < nb; k++) cmb_datasummary_add(b, xb[k]);
    for (int k = 0; k < ka; k++) cmb_datasummary_merge(a, a, a);
    for (int k = 0; k < kb; k++) cmb_datasummary_merge(b, b, b);
    q_t Na = (q_t)na * powq(2, ka), Nb = (q_t)nb * powq(2, kb), N = Na + Nb;
    /* the doubled summary by itself: 2^ka copies of the base data have the base data's central moments; skewness and kurtosis with their finite-sample
     * factors at a count beyond 2^32 */
    { q_t m = 0; for (size_t k = 0; k < na; k++) m += xa[k]; m /= (q_t)na; q_t c2 = 0, c3 = 0, c4 = 0; for (size_t k = 0; k < na; k++) { q_t dd = xa[k] - m; c2 += dd * dd; c3 += dd * dd * dd; c4 += dd * dd * dd * dd; } c2 /= (q_t)na; c3 /= (q_t)na; c4 /= (q_t)na;
      q_t g1 = c3 / (c2 * sqrtq(c2)), g2 = c4 / (c2 * c2) - 3, G1 = sqrtq(Na * (Na - 1)) / (Na - 2) * g1, G2 = (Na - 1) / ((Na - 2) * (Na - 3)) * ((Na + 1) * g2 + 6);
      double ls = cmb_datasummary_skewness(a), lk = cmb_datasummary_kurtosis(a);
      if (fabs(ls - (double)G1) > 1e-7 * (1 + fabs((double)G1))) vr_violation("C17/skewness", "%zu samples merged with themselves %d times (count %.0f): skewness %.12g, exact %.12g", na, ka, (double)Na, ls, (double)G1);
      else if (fabs(lk - (double)G2) > 1e-7 * (1 + fabs((double)G2))) vr_violation("C17/kurtosis", "%zu samples merged with themselves %d times (count %.0f): kurtosis %.12g, exact %.12g", na, ka, (double)Na, lk, (double)G2);
      VR_CNT("skewness_and_kurtosis_of_huge_summaries"); if (Na > 4294967296.0Q) VR_CNT("skewness_and_kurtosis_at_counts_beyond_2_32"); }
    q_t ma = 0, mb = 0; for (size_t k = 0; k < na; k++) ma += xa[k]; ma /= (q_t)na; for (size_t k = 0; k < nb; k++) mb += xb[k]; mb /= (q_t)nb;
    q_t M2a = 0, M2b = 0; for (size_t k = 0; k < na; k++) M2a += (xa[k] - ma) * (xa[k] - ma); for (size_t k = 0; k < nb; k++) M2b += (xb[k] - mb) * (xb[k] - mb);
    M2a *= powq(2, ka); M2b *= powq(2, kb);
    q_t mean = (Na * ma + Nb * mb) / N, d = mb - ma, M2 = M2a + M2b + d * d * Na * Nb / N, var = M2 / (N - 1);
    uint64_t cnt = cmb_datasummary_merge(t, a, b);
    if ((q_t)cnt != N || (q_t)cmb_datasummary_count(t) != N) vr_violation("C17/merge-count", "merge of 2^%d x %zu and 2^%d x %zu samples returned count %" PRIu64, ka, na, kb, nb, cnt);
    else if (fabs((double)((q_t)cmb_datasummary_mean(t) - mean)) > 1e-9 * (1 + fabs((double)mean))) vr_violation("C17/mean", "merge of 2^%d x %zu and 2^%d x %zu samples: mean %.12g, exact %.12g", ka, na, kb, nb, cmb_datasummary_mean(t), (double)mean);
    else if (fabs((double)((q_t)cmb_datasummary_variance(t) - var)) > 1e-9 * (double)var) vr_violation("C17/variance", "merge of 2^%d x %zu and 2^%d x %zu samples (product of the counts 2^%.1f): variance %.12g, exact %.12g", ka, na, kb, nb, (double)(log2q(Na) + log2q(Nb)), cmb_datasummary_variance(t), (double)var);
    VR_CNT("merges_of_huge_summaries"); if (log2q(Na) + log2q(Nb) >= 64) VR_CNT("merges_with_count_product_beyond_2_64");
    cmb_datasummary_destroy(a); cmb_datasummary_destroy(b); cmb_datasummary_destroy(t);
}

static void c17_unweighted(vr_rng *r)
{
    int cls = (int)vr_below(r, G_N); size_t n = pick_len(r);
    double *x = malloc((n + 1) * sizeof *x); gen_data(r, cls, x, n);
    vr_fp_mix((uint64_t)cls); vr_fp_mix(n);
    vr_cnt_dyn(gname[cls], 1);
    char ctx[160];
    struct cmb_datasummary *s = cmb_datasummary_create();
    for (size_t k = 0; k < n; k++) cmb_datasummary_add(s, x[k]);
    snprintf(ctx, sizeof ctx, "add %zu %s samples", n, gname[cls]);
    if (!check_summary(s, x, n, ctx)) goto out;
    /* same through a dataset */
    { struct cmb_dataset *d = cmb_dataset_create(); for (size_t k = 0; k < n; k++) cmb_dataset_add(d, x[k]);
      struct cmb_datasummary s2; s2.cookie = 0; cmb_datasummary_initialize(&s2); cmb_dataset_summarize(d, &s2);
      snprintf(ctx, sizeof ctx, "dataset_summarize %zu %s", n, gname[cls]);
      bool ok = check_summary(&s2, x, n, ctx); cmb_dataset_destroy(d); if (!ok) goto out; }
    /* merges: every split point for short sequences, random multi-way for long ones */
    size_t nsplit = n <= 50 ? n + 1 : 6;
    for (size_t q = 0; q < nsplit && vr_nviol == 0; q++) {
        size_t cut = n <= 50 ? q : vr_below(r, n + 1);
        struct cmb_datasummary *a = cmb_datasummary_create(), *b = cmb_datasummary_create(), *t = cmb_datasummary_create();
        /* earlier lives: operands that were used and reset, a target that still holds older content (a merge overwrites its target) */
        if (vr_chance(r, 1, 2)) { for (int k = 0; k < 7; k++) { cmb_datasummary_add(a, 1e3 + 17.0 * k); cmb_datasummary_add(b, -5.0 - k * k); } cmb_datasummary_reset(a); cmb_datasummary_reset(b); VR_CNT("merge_operands_with_an_earlier_life"); }
        if (vr_chance(r, 1, 2)) { for (int k = 0; k < 5; k++) cmb_datasummary_add(t, 2.0 + 11.0 * k); VR_CNT("merge_targets_holding_older_content"); }
        for (size_t k = 0; k < cut; k++) cmb_datasummary_add(a, x[k]);
        for (size_t k = cut; k < n; k++) cmb_datasummary_add(b, x[k]);
        int shape = (int)vr_below(r, 4);      /* 0: t<-a,b  1: t<-b,a  2: a<-a,b  3: b<-a,b */
        struct cmb_datasummary *res = t;
        uint64_t rc;
        if (shape == 0) rc = cmb_datasummary_merge(t, a, b);
        else if (shape == 1) rc = cmb_datasummary_merge(t, b, a);
        else if (shape == 2) { rc = cmb_datasummary_merge(a, a, b); res = a; VR_CNT("merge_target_aliases_operand"); }
        else { rc = cmb_datasummary_merge(b, a, b); res = b; VR_CNT("merge_target_aliases_operand"); }
        VR_CNT("merges");
        if (cut == 0 && n == 0) VR_CNT("merge_empty_empty"); else if (cut == 0 || cut == n) VR_CNT("merge_empty_nonempty");
        if (rc != n) { vr_violation("C17/merge-count", "merge returned %" PRIu64 " for %zu+%zu", rc, cut, n - cut); }
        snprintf(ctx, sizeof ctx, "merge(shape %d) of %zu + %zu %s samples", shape, cut, n - cut, gname[cls]);
        if (vr_nviol == 0 && check_summary(res, x, n, ctx) && n + 1 <= 60) {
            /* keep using the merged summary: add one more sample (catches a poisoned empty merge) */
            x[n] = (n ? x[0] : 0.0) * 0.5 + 1.0; if (cls == G_BIG) x[n] = 1e59; if (cls == G_SMALL) x[n] = 1e-61; if (cls == G_OFFSET) x[n] = 1e9 + 0.5;
            cmb_datasummary_add(res, x[n]);
            snprintf(ctx, sizeof ctx, "merge(shape %d) of %zu + %zu %s samples, then one more add", shape, cut, n - cut, gname[cls]);
            check_summary(res, x, n + 1, ctx);
        }
        cmb_datasummary_destroy(a); cmb_datasummary_destroy(b); cmb_datasummary_destroy(t);
    }
    /* multi-way */
    if (n > 50 && vr_nviol == 0) {
        int parts = 2 + (int)vr_below(r, 6);
        struct cmb_datasummary *acc = cmb_datasummary_create();
        size_t pos = 0;
        for (int p = 0; p < parts; p++) {
            size_t end = p == parts - 1 ? n : pos + vr_below(r, n - pos + 1);
            struct cmb_datasummary *part = cmb_datasummary_create();
            for (size_t k = pos; k < end; k++) cmb_datasummary_add(part, x[k]);
            cmb_datasummary_merge(acc, acc, part); cmb_datasummary_destroy(part); pos = end; VR_CNT("merges");
        }
        snprintf(ctx, sizeof ctx, "%d-way merge of %zu %s samples", parts, n, gname[cls]);
        check_summary(acc, x, n, ctx);
        cmb_datasummary_destroy(acc);
    }
    if (n >= 5 && cls != G_CONST) vr_mark_nontrivial();
out:
    cmb_datasummary_destroy(s); free(x);
}

/* weighted ---------------------------------------------------------------- */
static bool rel_close(double a, double b, double tol, double floor_) { double d = fabs(a - b), m = fmax(fmax(fabs(a), fabs(b)), floor_); return d <= tol * m || (a != a && b != b); }

/* a summary collected by a simulated process (its own floating-point environment): integer weights in a unit of 2^-1070, i.e. subnormal
 * but exact, must give the count and the mean of the same data with the weights 1..4 */
static struct { size_t n; const double *x, *w; struct cmb_wtdsummary *s; } inproc;
static void *inproc_body(struct cmb_process *me, void *ctx) { (void)me; (void)ctx; for (size_t k = 0; k < inproc.n; k++) cmb_wtdsummary_add(inproc.s, inproc.x[k], inproc.w[k] * 0x1p-1070); return NULL; }
static void c17_in_process(const double *x, const double *w, size_t n, size_t np, double mean_ref, double range)
{
    inproc.n = n; inproc.x = x; inproc.w = w; inproc.s = cmb_wtdsummary_create();
    cmb_event_queue_initialize(0.0);
    struct cmb_process *p = cmb_process_create(); cmb_process_initialize(p, "collector", inproc_body, NULL, 0); cmb_process_start(p);
    while (cmb_event_execute_next()) { }
    cmb_process_terminate(p); cmb_process_destroy(p); cmb_event_queue_terminate();
    if (cmb_wtdsummary_count(inproc.s) != np) vr_violation("C17/wtd-count", "collected inside a process with weights in a unit of 2^-1070: count %" PRIu64 ", %zu samples have a positive weight", cmb_wtdsummary_count(inproc.s), np);
    else if (np > 0 && fabs(cmb_wtdsummary_mean(inproc.s) - mean_ref) > 1e-9 * (range + fabs(mean_ref) + 1e-300)) vr_violation("C17/wtd-scale/mean", "collected inside a process with weights in a unit of 2^-1070: mean %.12g, with the unit 1 it is %.12g", cmb_wtdsummary_mean(inproc.s), mean_ref);
    VR_CNT("weighted_summaries_collected_inside_a_process");
    cmb_wtdsummary_destroy(inproc.s);
}

/* a long quiet spell: one level (zero, as an idle server or an empty queue) has gathered 2^20..2^70 times the weight of the few samples that follow.
 * Everything is non-negative, so the exact mean and variance are well conditioned and the summary must match them to rounding. */
static void c17_quiet_spell(vr_rng *r)
{
    int k2 = 20 + (int)vr_below(r, 51); double W = ldexp(1.0, k2); int parts = 1 + (int)vr_below(r, 3); size_t m = 2 + vr_below(r, 7);
    double unit = vr_chance(r, 1, 3) ? ldexp(1.0, -(int)vr_below(r, 80)) : 1.0;      /* the same picture in another unit of time */
    double x[16], w[16]; size_t n = 0;
    for (int p = 0; p < parts; p++) { x[n] = 0.0; w[n] = W / parts * unit; n++; }
    for (size_t k = 0; k < m; k++) { x[n] = 1.0 + (double)vr_below(r, 100) + (vr_chance(r, 1, 2) ? 0.5 : 0.0); w[n] = 0.25 * (double)(1 + vr_below(r, 16)) * unit; n++; }
    struct cmb_wtdsummary *s = cmb_wtdsummary_create(), *a = cmb_wtdsummary_create(), *b = cmb_wtdsummary_create(), *mg = cmb_wtdsummary_create();
    for (size_t k = 0; k < n; k++) { cmb_wtdsummary_add(s, x[k], w[k]); cmb_wtdsummary_add(k < (size_t)parts ? a : b, x[k], w[k]); }
    cmb_wtdsummary_merge(mg, a, b);
    q_t sw = 0, swx = 0; for (size_t k = 0; k < n; k++) { sw += w[k]; swx += (q_t)w[k] * x[k]; }
    q_t mu = swx / sw, s2 = 0; for (size_t k = 0; k < n; k++) s2 += (q_t)w[k] * ((q_t)x[k] - mu) * ((q_t)x[k] - mu);
    q_t var = s2 / sw * (q_t)n / (q_t)(n - 1);
    double lm = cmb_wtdsummary_mean(s), lv = cmb_wtdsummary_variance(s);
    if (!(fabs(lm - (double)mu) <= 1e-11 * (double)mu)) vr_violation("C17/wtd-mean/quiet-spell", "weighted mean %.17g, exact %.17g: a level of 0 with weight 2^%d (in %d parts), then %zu samples of weight 0.25..4 (unit %g)", lm, (double)mu, k2, parts, m, unit);
    else if (!(fabs(lv - (double)var) <= 1e-10 * (double)var)) vr_violation("C17/wtd-variance/quiet-spell", "weighted variance %.17g, exact %.17g: a level of 0 with weight 2^%d (in %d parts), then %zu samples (unit %g)", lv, (double)var, k2, parts, m, unit);
    else {
        const char *bad = NULL; double u = 0, v = 0;
        if (!rel_close(u = cmb_wtdsummary_mean(mg), v = lm, 1e-11, 1e-300)) bad = "mean";
        else if (!rel_close(u = cmb_wtdsummary_variance(mg), v = lv, 1e-10, 1e-300)) bad = "variance";
        else if (!rel_close(u = cmb_wtdsummary_skewness(mg), v = cmb_wtdsummary_skewness(s), 1e-8, 1e-300)) bad = "skewness";
        else if (!rel_close(u = cmb_wtdsummary_kurtosis(mg), v = cmb_wtdsummary_kurtosis(s), 1e-8, 1e-300)) bad = "kurtosis";
        if (bad) { char kb[64]; snprintf(kb, sizeof kb, "C17/wtd-merge/%s", bad); vr_violation(kb, "quiet spell of weight 2^%d merged with %zu samples: %s %.15g, sample by sample %.15g", k2, m, bad, u, v); }
    }
    VR_CNT("quiet_spells_then_samples");
    cmb_wtdsummary_destroy(s); cmb_wtdsummary_destroy(a); cmb_wtdsummary_destroy(b); cmb_wtdsummary_destroy(mg);
    vr_mark_nontrivial();
}

static void c17_weighted(vr_rng *r)
{
    if (vr_chance(r, 1, 8)) { c17_quiet_spell(r); return; }
    int cls = (int)vr_below(r, G_N); size_t n = pick_len(r); if (n > 20000) n = 20000;
    if (cls == G_BIG || cls == G_SMALL || cls == G_OFFSET) cls = G_UNIFORM;
    double *x = malloc((n + 1) * sizeof *x), *w = malloc((n + 1) * sizeof *w); gen_data(r, cls, x, n);
    int wcls = (int)vr_below(r, 4);      /* 0 ones, 1 random, 2 random with zeros, 3 integers */
    for (size_t k = 0; k < n; k++) w[k] = wcls == 0 ? 1.0 : wcls == 1 ? 0.1 + vr_unit(r) * 5 : wcls == 2 ? (vr_chance(r, 1, 3) ? 0.0 : vr_unit(r) * 2 + 0.01) : (double)(1 + vr_below(r, 4));
    vr_fp_mix((uint64_t)cls); vr_fp_mix(n); vr_fp_mix((uint64_t)wcls);
    struct cmb_wtdsummary *s = cmb_wtdsummary_create();
    for (size_t k = 0; k < n; k++) cmb_wtdsummary_add(s, x[k], w[k]);
    /* exact weighted mean, count/min/max over positive-weight samples */
    q_t sw = 0, swx = 0; size_t np = 0; double mn = DBL_MAX, mx = -DBL_MAX;
    for (size_t k = 0; k < n; k++) if (w[k] > 0) { sw += w[k]; swx += (q_t)w[k] * x[k]; np++; if (x[k] < mn) mn = x[k]; if (x[k] > mx) mx = x[k]; }
    if (cmb_wtdsummary_count(s) != np) vr_violation("C17/wtd-count", "count %" PRIu64 " but %zu samples have positive weight (of %zu)", cmb_wtdsummary_count(s), np, n);
    else if (np > 0) {
        if (cmb_wtdsummary_min(s) != mn || cmb_wtdsummary_max(s) != mx) vr_violation("C17/wtd-minmax", "min/max %g/%g expected %g/%g (zero-weight samples must be ignored)", cmb_wtdsummary_min(s), cmb_wtdsummary_max(s), mn, mx);
        double em = (double)(swx / sw);
        double spread = mx - mn > 0 ? mx - mn : fabs(em);
        if (fabs(cmb_wtdsummary_mean(s) - em) > 1e-11 * (fabs(em) + spread) * (1 + (double)n / 1000)) vr_violation("C17/wtd-mean", "weighted mean %.17g exact %.17g (n=%zu weights class %d)", cmb_wtdsummary_mean(s), em, n, wcls);
        VR_CNT("weighted_means_vs_exact");
    }
    /* zero-weight samples change nothing */
    if (vr_nviol == 0 && np > 0) {
        struct cmb_wtdsummary *z = cmb_wtdsummary_create();
        for (size_t k = 0; k < n; k++) { if (vr_chance(r, 1, 3)) cmb_wtdsummary_add(z, vr_unit(r) * 1e6 - 5e5, 0.0); cmb_wtdsummary_add(z, x[k], w[k]); }
        cmb_wtdsummary_add(z, -1e9, 0.0);
        if (cmb_wtdsummary_count(z) != cmb_wtdsummary_count(s) || cmb_wtdsummary_min(z) != cmb_wtdsummary_min(s) || cmb_wtdsummary_max(z) != cmb_wtdsummary_max(s)
            || !rel_close(cmb_wtdsummary_mean(z), cmb_wtdsummary_mean(s), 1e-12, 1e-300) || !rel_close(cmb_wtdsummary_variance(z), cmb_wtdsummary_variance(s), 1e-12, 1e-300))
            vr_violation("C17/wtd-zero-weight", "interleaving zero-weight samples changed the summary (n=%zu)", n);
        cmb_wtdsummary_destroy(z); VR_CNT("zero_weight_relations");
    }
    /* all-ones weights == unweighted */
    if (vr_nviol == 0 && n >= 1) {
        struct cmb_wtdsummary *o = cmb_wtdsummary_create(); struct cmb_datasummary *u = cmb_datasummary_create();
        for (size_t k = 0; k < n; k++) { cmb_wtdsummary_add(o, x[k], 1.0); cmb_datasummary_add(u, x[k]); }
        const char *bad = NULL;
        if (cmb_wtdsummary_count(o) != cmb_datasummary_count(u)) bad = "count";
        else if (!rel_close(cmb_wtdsummary_mean(o), cmb_datasummary_mean(u), 1e-10, 1e-300)) bad = "mean";
        else if (n > 1 && !rel_close(cmb_wtdsummary_variance(o), cmb_datasummary_variance(u), 1e-9, 1e-300)) bad = "variance";
        else if (n > 2 && cls != G_CONST && !rel_close(cmb_wtdsummary_skewness(o), cmb_datasummary_skewness(u), 1e-7, 1e-3)) bad = "skewness";
        else if (n > 3 && cls != G_CONST && !rel_close(cmb_wtdsummary_kurtosis(o), cmb_datasummary_kurtosis(u), 1e-7, 1e-3)) bad = "kurtosis";
        if (bad) vr_violation("C17/wtd-ones", "all-ones weights: %s differs from the unweighted summary (n=%zu %s): %g vs %g", bad, n, gname[cls], cmb_wtdsummary_variance(o), cmb_datasummary_variance(u));
        cmb_wtdsummary_destroy(o); cmb_datasummary_destroy(u); VR_CNT("ones_weight_relations");
    }
    /* scale invariance */
    if (vr_nviol == 0 && np >= 4 && cls != G_CONST && mx > mn) {
        /* the last three are weight units far from one (durations in picoseconds or in ages of the universe); used with samples of moderate
         * size only, where no intermediate of a correctly scaled computation leaves the double range */
        static const double cs[] = { 2.0, 10.0, 1e-3, 0x1p40, 0x1p-900, 0x1p-400, 0x1p+400 };
        double amax = fabs(mx) > fabs(mn) ? fabs(mx) : fabs(mn);
        int ncs = (amax <= 1e9 && mx - mn >= 1e-6) ? 7 : 4; if (ncs == 7) VR_CNT("weight_units_far_from_one");
        for (int c = 0; c < ncs && vr_nviol == 0; c++) {
            struct cmb_wtdsummary *t = cmb_wtdsummary_create();
            for (size_t k = 0; k < n; k++) cmb_wtdsummary_add(t, x[k], w[k] * cs[c]);
            const char *bad = NULL; double a = 0, b = 0;
            if (!rel_close(a = cmb_wtdsummary_mean(t), b = cmb_wtdsummary_mean(s), 1e-9, 1e-9 * (mx - mn))) bad = "mean";
            else if (!rel_close(a = cmb_wtdsummary_variance(t), b = cmb_wtdsummary_variance(s), 1e-8, 1e-300)) bad = "variance";
            else if (!rel_close(a = cmb_wtdsummary_stddev(t), b = cmb_wtdsummary_stddev(s), 1e-8, 1e-300)) bad = "stddev";
            else if (!rel_close(a = cmb_wtdsummary_skewness(t), b = cmb_wtdsummary_skewness(s), 1e-6, 1e-3)) bad = "skewness";
            else if (!rel_close(a = cmb_wtdsummary_kurtosis(t), b = cmb_wtdsummary_kurtosis(s), 1e-6, 1e-3)) bad = "kurtosis";
            if (bad) { char kb[64]; snprintf(kb, sizeof kb, "C17/wtd-scale/%s", bad); vr_violation(kb, "multiplying all weights by %g changed the %s from %.12g to %.12g (n=%zu)", cs[c], bad, b, a, n); }
            cmb_wtdsummary_destroy(t); VR_CNT("weight_scale_relations");
        }
    }
    if (vr_nviol == 0 && wcls == 3 && n <= 2000 && vr_chance(r, 1, 2)) c17_in_process(x, w, n, np, cmb_wtdsummary_mean(s), mx > mn ? mx - mn : 0.0);
    /* weighted merge == concatenation (compared against the directly built summary) */
    if (vr_nviol == 0) {
        size_t cut = vr_below(r, n + 1); if (vr_chance(r, 1, 4)) cut = vr_chance(r, 1, 2) ? 0 : n;
        struct cmb_wtdsummary *a = cmb_wtdsummary_create(), *b = cmb_wtdsummary_create(), *t = cmb_wtdsummary_create();
        if (vr_chance(r, 1, 2)) { for (int k = 0; k < 7; k++) { cmb_wtdsummary_add(a, 1e3 + 17.0 * k, 1.0 + k); cmb_wtdsummary_add(b, -5.0 - k * k, 0.5); } cmb_wtdsummary_reset(a); cmb_wtdsummary_reset(b); VR_CNT("weighted_merge_operands_with_an_earlier_life"); }
        if (vr_chance(r, 1, 2)) { for (int k = 0; k < 5; k++) cmb_wtdsummary_add(t, 2.0 + 11.0 * k, 3.0); VR_CNT("weighted_merge_targets_holding_older_content"); }
        for (size_t k = 0; k < cut; k++) cmb_wtdsummary_add(a, x[k], w[k]);
        for (size_t k = cut; k < n; k++) cmb_wtdsummary_add(b, x[k], w[k]);
        int shape = (int)vr_below(r, 5); struct cmb_wtdsummary *res = a;
        if (shape == 0) cmb_wtdsummary_merge(a, a, b); else if (shape == 1) { cmb_wtdsummary_merge(b, a, b); res = b; } else if (shape == 2) { cmb_wtdsummary_merge(a, b, a); }
        else if (shape == 3) { cmb_wtdsummary_merge(t, a, b); res = t; } else { cmb_wtdsummary_merge(t, b, a); res = t; }
        VR_CNT("weighted_merges"); if (cmb_wtdsummary_count(a) == 0 || cut == 0 || cut == n) VR_CNT("weighted_merge_with_empty");
        const char *bad = NULL;
        if (cmb_wtdsummary_count(res) != np) bad = "count";
        else if (np > 0 && (cmb_wtdsummary_min(res) != mn || cmb_wtdsummary_max(res) != mx)) bad = "minmax";
        else if (np > 0 && !rel_close(cmb_wtdsummary_mean(res), cmb_wtdsummary_mean(s), 1e-9, 1e-9 * (mx - mn + 1e-300))) bad = "mean";
        else if (np > 1 && !rel_close(cmb_wtdsummary_variance(res), cmb_wtdsummary_variance(s), 1e-7, 1e-20)) bad = "variance";
        else if (np > 3 && cls != G_CONST && mx > mn && !rel_close(cmb_wtdsummary_kurtosis(res), cmb_wtdsummary_kurtosis(s), 1e-5, 1e-3)) bad = "kurtosis";
        if (bad) { char kb[64]; snprintf(kb, sizeof kb, "C17/wtd-merge/%s", bad); vr_violation(kb, "weighted merge (shape %d) of %zu + %zu: %s differs from the summary of the concatenation", shape, cut, n - cut, bad); }
        /* the merged summary must stay usable */
        if (vr_nviol == 0) { cmb_wtdsummary_add(res, 1.5, 2.0); cmb_wtdsummary_add(s, 1.5, 2.0); if (!rel_close(cmb_wtdsummary_mean(res), cmb_wtdsummary_mean(s), 1e-9, 1e-9 * (mx - mn + 1))) vr_violation("C17/wtd-merge/poisoned", "adding to a merged summary (%zu + %zu) gives mean %g, expected %g", cut, n - cut, cmb_wtdsummary_mean(res), cmb_wtdsummary_mean(s)); }
        cmb_wtdsummary_destroy(a); cmb_wtdsummary_destroy(b); cmb_wtdsummary_destroy(t);
    }
    /* an empty result in a used target, used on: two empties merged into a summary that holds older data, which is then merged with the data */
    if (vr_nviol == 0 && np > 0) {
        struct cmb_wtdsummary *e1 = cmb_wtdsummary_create(), *e2 = cmb_wtdsummary_create(), *t = cmb_wtdsummary_create(), *out = cmb_wtdsummary_create();
        for (int k = 0; k < 6; k++) cmb_wtdsummary_add(t, 50.0 + 3.0 * k, 2.0 + k);
        if (vr_chance(r, 1, 2)) { cmb_wtdsummary_add(e1, 9.0, 4.0); cmb_wtdsummary_reset(e1); }
        if (vr_chance(r, 1, 2)) cmb_wtdsummary_add(e2, 1.0, 0.0);                 /* a zero-weight sample only: still empty */
        uint64_t c0 = cmb_wtdsummary_merge(t, e1, e2);
        if (c0 != 0 || cmb_wtdsummary_count(t) != 0) vr_violation("C17/wtd-merge/count", "two empty weighted summaries merged into a used one: count %" PRIu64, cmb_wtdsummary_count(t));
        else { if (vr_chance(r, 1, 2)) cmb_wtdsummary_merge(out, t, s); else cmb_wtdsummary_merge(out, s, t);
            const char *bad = NULL;
            if (cmb_wtdsummary_count(out) != cmb_wtdsummary_count(s)) bad = "count";      /* (s may have received one more sample above) */
            else if (!rel_close(cmb_wtdsummary_mean(out), cmb_wtdsummary_mean(s), 1e-12, 1e-12 * (mx - mn + 1e-300))) bad = "mean";
            else if (cmb_wtdsummary_count(s) > 1 && !rel_close(cmb_wtdsummary_variance(out), cmb_wtdsummary_variance(s), 1e-9, 1e-300)) bad = "variance";
            if (bad) { char kb[64]; snprintf(kb, sizeof kb, "C17/wtd-merge/%s", bad); vr_violation(kb, "data merged with a summary that had been emptied by merging two empty ones into it: %s %.12g, without the detour %.12g", bad, bad[0] == 'm' ? cmb_wtdsummary_mean(out) : bad[0] == 'v' ? cmb_wtdsummary_variance(out) : (double)cmb_wtdsummary_count(out), bad[0] == 'm' ? cmb_wtdsummary_mean(s) : bad[0] == 'v' ? cmb_wtdsummary_variance(s) : (double)cmb_wtdsummary_count(s)); }
            VR_CNT("merges_with_a_summary_emptied_by_a_merge"); }
        cmb_wtdsummary_destroy(e1); cmb_wtdsummary_destroy(e2); cmb_wtdsummary_destroy(t); cmb_wtdsummary_destroy(out);
    }
    if (np >= 4) vr_mark_nontrivial();
    cmb_wtdsummary_destroy(s); free(x); free(w);
}

/* ------------------------------------------------------------------ C18 --- */
static int cmp_d(const void *a, const void *b) { double x = *(const double *)a, y = *(const double *)b; return x < y ? -1 : x > y; }
struct trip { double x, t, w; };
static int cmp_trip(const void *a, const void *b) { const struct trip *p = a, *q = b; if (p->x != q->x) return p->x < q->x ? -1 : 1; if (p->t != q->t) return p->t < q->t ? -1 : 1; return p->w < q->w ? -1 : p->w > q->w; }

static size_t pick_len18(vr_rng *r)
{
    static const size_t edge[] = { 1, 2, 3, 4, 5, 1023, 1024, 1025, 2047, 2048, 2049 };
    unsigned w = (unsigned)vr_below(r, 100);
    if (w < 40) return edge[vr_below(r, 11)];
    if (w < 85) return 1 + vr_below(r, 60);
    if (w < 98) return 100 + vr_below(r, 3000);
    return 10000;
}
/* parse the five numbers printed with lead_ins=false */
static int parse5(const char *s, double v[5]) { return sscanf(s, "%lf %lf %lf %lf %lf", &v[0], &v[1], &v[2], &v[3], &v[4]); }
static double fmt4(double x) { char b[64]; snprintf(b, sizeof b, "%#8.4g", x); return strtod(b, NULL); }

static void build_ts(vr_rng *r, struct cmb_timeseries *ts, const double *x, size_t n, int wpat, struct trip *tr)
{
    /* wpat: 0 equal, 1 random, 2 one dominant sample (50-99 %), 3 with zero durations, 4 dominant first, 5 dominant last */
    double t = vr_chance(r, 1, 2) ? 0.0 : -50.0;
    size_t dom = n ? vr_below(r, n) : 0; if (wpat == 4) dom = 0; if (wpat == 5) dom = n ? n - 1 : 0;
    double *dur = malloc((n + 1) * sizeof *dur); double tot = 0;
    for (size_t k = 0; k < n; k++) { dur[k] = wpat == 0 ? 1.0 : wpat == 3 ? (vr_chance(r, 1, 2) ? 0.0 : (double)(1 + vr_below(r, 3))) : 0.25 * (double)(1 + vr_below(r, 16)); tot += dur[k]; }
    if ((wpat == 2 || wpat == 4 || wpat == 5) && n > 0) { double frac = 0.5 + 0.49 * vr_unit(r); double rest = tot - dur[dom]; dur[dom] = ceil((rest * frac / (1 - frac)) * 4) / 4 + 0.25; }
    for (size_t k = 0; k < n; k++) { cmb_timeseries_add(ts, x[k], t); if (tr) { tr[k].x = x[k]; tr[k].t = t; tr[k].w = dur[k]; } t += dur[k]; }
    if (n > 0) { cmb_timeseries_finalize(ts, t); if (tr) { tr[n].x = x[n - 1]; tr[n].t = t; tr[n].w = 0.0; } }
    free(dur);
}

/* the same reports made by the main program and by a simulated process on its own (64 KiB) stack, for series long enough that
 * any per-sample scratch space is many times that stack: the texts must agree */
static struct { struct cmb_timeseries *ts; char *txt; size_t len; } rep;
static void rep_make(void)
{
    FILE *mf = open_memstream(&rep.txt, &rep.len);
    fprintf(mf, "median %.17g dataset-median %.17g\n", cmb_timeseries_median(rep.ts), cmb_dataset_median((struct cmb_dataset *)rep.ts));
    cmb_timeseries_fivenum_print(rep.ts, mf, true); cmb_dataset_fivenum_print((struct cmb_dataset *)rep.ts, mf, true);
    cmb_timeseries_histogram_print(rep.ts, mf, 10, 0.0, 0.0); cmb_dataset_histogram_print((struct cmb_dataset *)rep.ts, mf, 10, 0.0, 0.0);
    struct cmb_wtdsummary ws; ws.ds.cookie = 0; cmb_wtdsummary_initialize(&ws); cmb_timeseries_summarize(rep.ts, &ws); cmb_wtdsummary_print(&ws, mf, true);
    cmb_timeseries_correlogram_print(rep.ts, mf, 12, NULL);
    fclose(mf);
}
static void *rep_body(struct cmb_process *me, void *ctx) { (void)me; (void)ctx; rep_make(); return NULL; }
static void c18_reports_in_process(vr_rng *r)
{
    static const size_t ns[] = { 3000, 8190, 8200, 9000, 16400, 40000, 100000 };
    size_t n = ns[vr_below(r, 7)] + vr_below(r, 5);
    struct cmb_timeseries *ts = cmb_timeseries_create(); double t = 0;
    for (size_t k = 0; k < n; k++) { cmb_timeseries_add(ts, (double)vr_below(r, 9) + (vr_chance(r, 1, 4) ? 0.5 : 0.0), t); t += 0.25 * (double)(1 + vr_below(r, 8)); }
    cmb_timeseries_finalize(ts, t);
    rep.ts = ts; rep.txt = NULL; rep_make(); char *outside = rep.txt; rep.txt = NULL;
    cmb_event_queue_initialize(0.0);
    struct cmb_process *p = cmb_process_create(); cmb_process_initialize(p, "reporter", rep_body, NULL, 0); cmb_process_start(p);
    while (cmb_event_execute_next()) { }
    cmb_process_terminate(p); cmb_process_destroy(p); cmb_event_queue_terminate();
    if (rep.txt == NULL || strcmp(rep.txt, outside) != 0) {
        size_t at = 0; if (rep.txt) while (rep.txt[at] && rep.txt[at] == outside[at]) at++;
        vr_violation("C18/report-in-process", "median, five-number summaries, histograms, summary and correlogram of %zu samples reported by a process differ from the same made by the main program (first difference at character %zu)", n + 1, at);
    }
    VR_CNT("report_sets_made_inside_a_process"); VR_MAX("max_samples_reported_inside_a_process", n + 1);
    free(outside); free(rep.txt); cmb_timeseries_destroy(ts);
    vr_mark_nontrivial();
}

static void c18_order(vr_rng *r)
{
    if (vr_chance(r, 1, 60)) { c18_reports_in_process(r); return; }
    int cls = (int)vr_below(r, G_N); size_t n = pick_len18(r);
    if (cls == G_BIG || cls == G_SMALL) cls = G_INTS;
    double *x = malloc((n + 2) * sizeof *x); gen_data(r, cls, x, n);
    /* one input in ten: the same shape of data, in multiples of the smallest subnormal (levels 1..5 x 2^-1074): halves are not exact down there */
    if (vr_chance(r, 1, 10)) { for (size_t k = 0; k < n; k++) { double a = fabs(x[k]) * 3.0; if (!(a < 1e15)) a = 2.0; x[k] = (double)(1 + (uint64_t)a % 5) * 0x1p-1074; } VR_CNT("inputs_in_the_subnormal_range"); }
    /* one input in twelve: the same shape in the top binade of the doubles (0.5..1 x DBL_MAX, signs kept): the sum of two neighbours is not a double up there */
    else if (vr_chance(r, 1, 11)) { for (size_t k = 0; k < n; k++) { double a = fabs(x[k]); a = a - floor(a); x[k] = (x[k] < 0 ? -1.0 : 1.0) * (0.5 + 0.5 * a) * DBL_MAX; } VR_CNT("inputs_in_the_top_binade"); }
    vr_fp_mix((uint64_t)cls); vr_fp_mix(n);
    vr_cnt_dyn(n <= 5 ? "size_1_5" : n < 1023 ? "size_6_1022" : n <= 1025 ? "size_1023_1025" : n <= 2049 ? "size_2047_2049" : "size_large", 1);
    char *buf = NULL; size_t bl = 0; FILE *mf;
    /* ---- dataset: sort */
    struct cmb_dataset *d = cmb_dataset_create();
    /* an earlier life in one case out of three: filled (beyond the first array growth in half of them), sorted, reset */
    if (vr_chance(r, 1, 3)) { size_t m0 = vr_chance(r, 1, 2) ? 7 : 1500; for (size_t k = 0; k < m0; k++) cmb_dataset_add(d, 1e4 - (double)k); cmb_dataset_sort(d); (void)cmb_dataset_median(d); cmb_dataset_reset(d); VR_CNT("datasets_with_an_earlier_life");
        if (cmb_dataset_count(d) != 0) vr_violation("C18/dataset-reset", "a reset dataset reports %" PRIu64 " samples", cmb_dataset_count(d)); }
    for (size_t k = 0; k < n; k++) cmb_dataset_add(d, x[k]);
    double *sorted = malloc((n + 1) * sizeof *sorted); memcpy(sorted, x, n * sizeof *x); qsort(sorted, n, sizeof *sorted, cmp_d);
    /* copy first (copies must be exact and must not share storage) */
    struct cmb_dataset cp; memset(&cp, 0, sizeof cp);
    cmb_dataset_copy(&cp, d);
    if (cp.count != n || cp.min != d->min || cp.max != d->max || memcmp(cp.xa, d->xa, n * sizeof(double)) != 0) vr_violation("C18/dataset-copy", "copy differs from source (n=%zu)", n);
    else if (cp.xa == d->xa) vr_violation("C18/dataset-copy-shared", "copy shares storage with its source");
    else {
        /* append to the copy across its allocation boundary; ASan watches */
        size_t extra = cp.cursize - cp.count + 3;
        for (size_t k = 0; k < extra; k++) cmb_dataset_add(&cp, 1e6 + (double)k);
        cmb_dataset_sort(&cp);
        if (memcmp(d->xa, x, n * sizeof(double)) != 0) vr_violation("C18/dataset-copy-shared", "mutating the copy changed the source");
        VR_CNT("copies_mutated");
    }
    cmb_dataset_reset(&cp);
    /* a dataset copied onto itself is its own exact copy */
    if (vr_nviol == 0 && vr_chance(r, 1, 4)) {
        cmb_dataset_copy(d, d);
        if (d->count != n || d->xa == NULL || memcmp(d->xa, x, n * sizeof(double)) != 0) vr_violation("C18/dataset-copy/onto-itself", "a dataset of %zu samples copied onto itself has %" PRIu64 " samples%s", n, d->count, d->xa == NULL ? " and no storage" : "");
        VR_CNT("copies_onto_itself");
    }
    if (vr_nviol) goto out;
    /* median and five-number before sorting the source (they work on copies) */
    {
        double m = cmb_dataset_median(d);
        size_t below = 0, above = 0; for (size_t k = 0; k < n; k++) { if (x[k] < m) below++; if (x[k] > m) above++; }
        if (2 * below > n || 2 * above > n || !(m >= sorted[0] && m <= sorted[n - 1])) vr_violation("C18/dataset-median", "median %g of %zu %s samples has %zu below and %zu above", m, n, gname[cls], below, above);
        VR_CNT("dataset_medians");
        if (memcmp(d->xa, x, n * sizeof(double)) != 0) vr_violation("C18/median-mutates", "median changed the order of the source dataset");
    }
    if (vr_nviol) goto out;
    {
        mf = open_memstream(&buf, &bl); cmb_dataset_fivenum_print(d, mf, false); fclose(mf);
        double v[5];
        if (parse5(buf, v) != 5) vr_violation("C18/dataset-fivenum-parse", "cannot parse five-number output '%s' (n=%zu)", buf, n);
        else if (!(v[0] <= v[1] && v[1] <= v[2] && v[2] <= v[3] && v[3] <= v[4]) || v[0] != fmt4(sorted[0]) || v[4] != fmt4(sorted[n - 1]))
            vr_violation("C18/dataset-fivenum", "five-number summary of %zu %s samples not ordered inside [min,max]: %s (data range %g..%g)", n, gname[cls], buf, sorted[0], sorted[n - 1]);
        free(buf); buf = NULL; VR_CNT("fivenum_reports_parsed");
    }
    if (vr_nviol) goto out;
    cmb_dataset_sort(d);
    if (memcmp(d->xa, sorted, n * sizeof(double)) != 0) {
        bool asc = true; for (size_t k = 1; k < n; k++) if (d->xa[k - 1] > d->xa[k]) asc = false;
        vr_violation(asc ? "C18/dataset-sort-multiset" : "C18/dataset-sort-order", "sort of %zu %s samples: %s", n, gname[cls], asc ? "ascending but not the same multiset" : "not ascending");
    }
    VR_CNT("dataset_sorts");
    if (vr_nviol) goto out;

    /* ---- time series */
    for (int rep = 0; rep < 2 && vr_nviol == 0; rep++) {
        int wpat = (int)vr_below(r, 6); vr_fp_mix((uint64_t)wpat);
        static const char *wn[] = { "equal", "random", "dominant", "zero-durations", "dominant-first", "dominant-last" };
        vr_cnt_dyn(wpat == 0 ? "w_equal" : wpat == 1 ? "w_random" : wpat == 3 ? "w_zero_durations" : "w_dominant", 1);
        struct cmb_timeseries *ts = cmb_timeseries_create();
        /* closing a series that has no samples yet (the precondition admits it) leaves it empty */
        if (vr_chance(r, 1, 6)) { uint64_t c0 = cmb_timeseries_finalize(ts, 3.0); if (c0 != 0 || cmb_timeseries_count(ts) != 0) vr_violation("C18/ts-finalize-empty", "finalize of an empty time series returned %" PRIu64 ", count now %" PRIu64, c0, cmb_timeseries_count(ts)); VR_CNT("empty_series_finalized"); }
        if (vr_chance(r, 1, 3)) { size_t m0 = vr_chance(r, 1, 2) ? 5 : 1300; for (size_t k = 0; k < m0; k++) cmb_timeseries_add(ts, (double)(k % 7), 0.5 * (double)k); cmb_timeseries_finalize(ts, 0.5 * (double)m0 + 3.0); cmb_timeseries_sort_x(ts); (void)cmb_timeseries_median(ts); cmb_timeseries_reset(ts); VR_CNT("series_with_an_earlier_life");
            if (cmb_timeseries_count(ts) != 0) vr_violation("C18/ts-reset", "a reset time series reports %" PRIu64 " samples", cmb_timeseries_count(ts)); }
        struct trip *tr = malloc((n + 2) * sizeof *tr), *tr2 = malloc((n + 2) * sizeof *tr2);
        bool finalized = vr_chance(r, 3, 4);
        if (finalized) build_ts(r, ts, x, n, wpat, tr);
        else { /* unfinalised last sample: build without finalize */
            double t = 0; for (size_t k = 0; k < n; k++) { cmb_timeseries_add(ts, x[k], t); tr[k].x = x[k]; tr[k].t = t; tr[k].w = 1.0; t += 1.0; } if (n) tr[n - 1].w = 0.0; VR_CNT("unfinalised_series");
        }
        size_t m = finalized ? n + 1 : n;
        struct cmb_dataset *td = (struct cmb_dataset *)ts;
        /* library's own idea of the weights must equal the time differences */
        for (size_t k = 0; k < m; k++) if (ts->wa[k] != tr[k].w || ts->ta[k] != tr[k].t || td->xa[k] != tr[k].x) { vr_violation("C18/ts-weights", "sample %zu: (x,t,w)=(%g,%g,%g) expected (%g,%g,%g)", k, td->xa[k], ts->ta[k], ts->wa[k], tr[k].x, tr[k].t, tr[k].w); break; }
        if (vr_nviol) { free(tr); free(tr2); break; }
        /* copy */
        struct cmb_timeseries tc; memset(&tc, 0, sizeof tc);
        cmb_timeseries_copy(&tc, ts);
        struct cmb_dataset *tcd = (struct cmb_dataset *)&tc;
        if (tcd->count != m || memcmp(tcd->xa, td->xa, m * 8) || memcmp(tc.ta, ts->ta, m * 8) || memcmp(tc.wa, ts->wa, m * 8)) vr_violation("C18/ts-copy", "time-series copy differs from source (n=%zu)", m);
        else if (tcd->xa == td->xa || tc.ta == ts->ta || tc.wa == ts->wa) vr_violation("C18/ts-copy-shared", "copy shares storage");
        else {
            double tl = ts->ta[m - 1];
            size_t extra = tcd->cursize - tcd->count + 3;
            for (size_t k = 0; k < extra; k++) cmb_timeseries_add(&tc, 7.0, tl + 1.0 + (double)k);      /* ASan watches ta/wa */
            if (memcmp(td->xa, x, n * 8) != 0) vr_violation("C18/ts-copy-shared", "mutating the copy changed the source");
            VR_CNT("copies_mutated");
        }
        cmb_timeseries_reset(&tc);
        if (vr_nviol == 0 && vr_chance(r, 1, 4)) {
            cmb_timeseries_copy(ts, ts);
            if (td->count != m || td->xa == NULL || ts->ta == NULL || ts->wa == NULL) vr_violation("C18/ts-copy/onto-itself", "a time series of %zu samples copied onto itself has %" PRIu64 " samples%s", m, td->count, (td->xa == NULL || ts->ta == NULL || ts->wa == NULL) ? " and lost storage" : "");
            else for (size_t k = 0; k < m; k++) if (ts->wa[k] != tr[k].w || ts->ta[k] != tr[k].t || td->xa[k] != tr[k].x) { vr_violation("C18/ts-copy/onto-itself", "a time series copied onto itself: sample %zu changed", k); break; }
            VR_CNT("copies_onto_itself");
        }
        /* copies onto a target that is in use, also from an empty source: the target becomes an exact copy, and stays a usable series */
        if (vr_nviol == 0) {
            struct cmb_timeseries *used = cmb_timeseries_create(), *empty = cmb_timeseries_create();
            size_t j0 = vr_chance(r, 1, 2) ? 3 : 1100; for (size_t k = 0; k < j0; k++) cmb_timeseries_add(used, 100.0 + (double)k, (double)k);
            cmb_timeseries_copy(used, ts);
            const struct cmb_dataset *ud = (const struct cmb_dataset *)used;
            if (ud->count != m || memcmp(ud->xa, td->xa, m * 8) || memcmp(used->ta, ts->ta, m * 8) || memcmp(used->wa, ts->wa, m * 8)) vr_violation("C18/ts-copy", "copy onto a series in use differs from its source (n=%zu)", m);
            else {
                /* half of the time the copy is recorded into, past the end of its source's allocation, before anything else */
                if (vr_chance(r, 1, 2)) {
                    size_t extra = td->cursize - m + 5; double tl = ts->ta[m - 1]; bool ok = true;
                    for (size_t k = 0; k < extra; k++) cmb_timeseries_add(used, 3.0 + (double)k, tl + 1.0 + (double)k);      /* ASan watches all three arrays */
                    if (ud->count != m + extra) ok = false;
                    for (size_t k = 0; ok && k < m + extra; k++) {
                        double ex = k < m ? tr[k].x : 3.0 + (double)(k - m), et = k < m ? tr[k].t : tl + 1.0 + (double)(k - m), ew = k + 1 < m ? tr[k].w : k + 1 < m + extra ? 1.0 : 0.0;
                        if (ud->xa[k] != ex || used->ta[k] != et || used->wa[k] != ew) { ok = false; vr_violation("C18/ts-copy/recorded-into", "a copy made onto a series in use (%zu samples onto %zu), then recorded into for %zu more samples: sample %zu is (%g,%g,%g), expected (%g,%g,%g)", m, j0, extra, k, ud->xa[k], used->ta[k], used->wa[k], ex, et, ew); }
                    }
                    if (!ok && vr_nviol == 0) vr_violation("C18/ts-copy/recorded-into", "a copy recorded into has %" PRIu64 " samples, expected %zu", ud->count, m + extra);
                    VR_CNT("copies_onto_a_series_in_use_recorded_into");
                }
                cmb_timeseries_copy(used, empty);
                if (cmb_timeseries_count(used) != 0) vr_violation("C18/ts-copy", "copy of an empty series onto a series in use leaves %" PRIu64 " samples", cmb_timeseries_count(used));
                else { for (size_t k = 0; k < 40; k++) cmb_timeseries_add(used, (double)(k % 5), 2.0 * (double)k); cmb_timeseries_finalize(used, 100.0);      /* ASan watches the arrays of the recycled target */
                    double med = cmb_timeseries_median(used); if (!(med >= 0.0 && med <= 4.0)) vr_violation("C18/ts-median/after-copy", "median %g of values 0..4 in a series that had received a copy of an empty one", med); }
                VR_CNT("copies_onto_a_series_in_use");
            }
            cmb_timeseries_destroy(used); cmb_timeseries_destroy(empty);
        }
        if (vr_nviol) { free(tr); free(tr2); break; }
        /* weighted median */
        {
            double med = cmb_timeseries_median(ts);
            double tot = 0, below = 0, above = 0; for (size_t k = 0; k < m; k++) { tot += tr[k].w; if (tr[k].x < med) below += tr[k].w; if (tr[k].x > med) above += tr[k].w; }
            VR_CNT("ts_medians");
            if (tot > 0 && (below > 0.5 * tot * (1 + 1e-12) || above > 0.5 * tot * (1 + 1e-12) || !(med >= sorted[0] && med <= sorted[n - 1]))) {
                /* classify: outside the data range / equals the documented interpolation / something else */
                const char *key = "C18/ts-median/wrong";
                if (!(med >= sorted[0] && med <= sorted[n - 1])) key = "C18/ts-median/outside-data-range";
                else {
                    memcpy(tr2, tr, m * sizeof *tr); qsort(tr2, m, sizeof *tr2, cmp_trip);
                    double cum = 0, half = 0.5 * tot;
                    for (size_t k = 0; k + 1 < m; k++) { cum += tr2[k].w; double nxt = cum + tr2[k + 1].w; if (cum <= half && nxt > half) { double ip = tr2[k].x + (tr2[k + 1].x - tr2[k].x) * (half - cum) / (nxt - cum); if (fabs(ip - med) <= 1e-9 * (fabs(ip) + 1)) key = "C18/ts-median/interpolated-not-true-median"; break; } }
                }
                vr_violation(key, "weighted median %g of %zu samples (%s, weights %s): weight strictly below %g, strictly above %g, total %g, data range %g..%g", med, m, gname[cls], wn[wpat], below, above, tot, sorted[0], sorted[n - 1]);
            }
        }
        if (vr_nviol) { free(tr); free(tr2); break; }
        /* weighted five-number */
        {
            mf = open_memstream(&buf, &bl); cmb_timeseries_fivenum_print(ts, mf, false); fclose(mf);
            double v[5];
            if (parse5(buf, v) != 5) vr_violation("C18/ts-fivenum-parse", "cannot parse '%s'", buf);
            else if (!(v[0] <= v[1] && v[1] <= v[2] && v[2] <= v[3] && v[3] <= v[4]) || v[0] != fmt4(sorted[0]) || v[4] != fmt4(sorted[n - 1]))
                vr_violation("C18/ts-fivenum", "weighted five-number summary of %zu samples (%s, weights %s) not ordered inside [min,max]: %s", m, gname[cls], wn[wpat], buf);
            free(buf); buf = NULL; VR_CNT("fivenum_reports_parsed");
        }
        if (vr_nviol) { free(tr); free(tr2); break; }
        /* the picture and the summary of the series as recorded, for comparison with those of the same samples stored in order of value */
        char *h_before = NULL; size_t hbl = 0; double hlo = sorted[0], hhi = sorted[n - 1]; unsigned hnb = 1 + (unsigned)vr_below(r, 12);
        struct cmb_wtdsummary ws_before; ws_before.ds.cookie = 0; cmb_wtdsummary_initialize(&ws_before);
        bool cmp_pictures = fabs(hlo) < 1e300 && fabs(hhi) < 1e300 && hhi > hlo;
        if (cmp_pictures) { mf = open_memstream(&h_before, &hbl); cmb_timeseries_histogram_print(ts, mf, (uint16_t)hnb, hlo, hhi); fclose(mf); }
        if (m >= 2) cmb_timeseries_summarize(ts, &ws_before);
        /* sort by x: ascending, triples intact; then back by t */
        cmb_timeseries_sort_x(ts);
        if (vr_nviol == 0 && cmp_pictures) {
            char *h_after = NULL; size_t hal = 0; mf = open_memstream(&h_after, &hal); cmb_timeseries_histogram_print(ts, mf, (uint16_t)hnb, hlo, hhi); fclose(mf);
            if (strcmp(h_before, h_after) != 0) {
                double wlast = ts->wa[m - 1];
                vr_violation("C18/ts-hist/after-sort", "time-weighted histogram (%u bins on [%g,%g]) of %zu samples (weights %s) changes when the same samples are stored in order of value (the sample stored last then carries weight %g)", hnb, hlo, hhi, m, wn[wpat], wlast);
            }
            free(h_after); VR_CNT("ts_histograms_compared_across_storage_orders");
        }
        free(h_before);
        if (vr_nviol == 0 && m >= 2) {
            struct cmb_wtdsummary ws_after; ws_after.ds.cookie = 0; cmb_wtdsummary_initialize(&ws_after); cmb_timeseries_summarize(ts, &ws_after);
            double wtot = 0; for (size_t k = 0; k < m; k++) wtot += tr[k].w;
            if (wtot > 0 && (ws_after.wsum != ws_before.wsum || ws_after.wsum != wtot || cmb_wtdsummary_count(&ws_after) != cmb_wtdsummary_count(&ws_before)))
                vr_violation("C18/ts-summarize/after-sort", "summary of %zu samples (weights %s) stored in order of value covers weight %g in %" PRIu64 " samples; as recorded %g in %" PRIu64 "; the durations add up to %g", m, wn[wpat], ws_after.wsum, cmb_wtdsummary_count(&ws_after), ws_before.wsum, cmb_wtdsummary_count(&ws_before), wtot);
            VR_CNT("ts_summaries_compared_across_storage_orders");
        }
        for (size_t k = 0; k < m; k++) { tr2[k].x = td->xa[k]; tr2[k].t = ts->ta[k]; tr2[k].w = ts->wa[k]; }
        { bool asc = true; for (size_t k = 1; k < m; k++) if (tr2[k - 1].x > tr2[k].x) asc = false;
          if (!asc) vr_violation("C18/ts-sort-order", "sort_x of %zu samples not ascending", m);
          else { struct trip *a = malloc(m * sizeof *a), *b = malloc(m * sizeof *b); memcpy(a, tr, m * sizeof *a); memcpy(b, tr2, m * sizeof *b); qsort(a, m, sizeof *a, cmp_trip); qsort(b, m, sizeof *b, cmp_trip);
                 if (memcmp(a, b, m * sizeof *a) != 0) vr_violation("C18/ts-sort-detached", "sort_x separated samples from their time/weight (n=%zu, %s)", m, gname[cls]); free(a); free(b); } }
        VR_CNT("ts_sorts");
        /* a copy taken in any order is exact, and order statistics do not depend on the storage order */
        if (vr_nviol == 0) {
            struct cmb_timeseries t2; memset(&t2, 0, sizeof t2);
            cmb_timeseries_copy(&t2, ts);
            const struct cmb_dataset *d2 = (const struct cmb_dataset *)&t2;
            if (d2->count != m || memcmp(d2->xa, td->xa, m * 8) || memcmp(t2.ta, ts->ta, m * 8) || memcmp(t2.wa, ts->wa, m * 8)) vr_violation("C18/ts-copy", "copy of a time series sorted by x differs from its source (n=%zu)", m);
            cmb_timeseries_reset(&t2);
            if (vr_nviol == 0) {
                double med = cmb_timeseries_median(ts);
                double tot = 0, below = 0, above = 0; for (size_t k = 0; k < m; k++) { tot += tr[k].w; if (tr[k].x < med) below += tr[k].w; if (tr[k].x > med) above += tr[k].w; }
                if (tot > 0 && (below > 0.5 * tot * (1 + 1e-12) || above > 0.5 * tot * (1 + 1e-12))) vr_violation("C18/ts-median/after-sort", "weighted median %g of a series already sorted by x (%zu samples, weights %s): weight below %g, above %g of %g", med, m, wn[wpat], below, above, tot);
                VR_CNT("ts_medians_after_sort");
            }
        }
        if (vr_nviol == 0 && wpat != 3 && finalized == false) {   /* distinct times: sort_t restores the original */
            cmb_timeseries_sort_t(ts);
            for (size_t k = 0; k < m; k++) if (td->xa[k] != tr[k].x || ts->ta[k] != tr[k].t || ts->wa[k] != tr[k].w) { vr_violation("C18/ts-sort-t", "sort_t did not restore sample %zu", k); break; }
        }
        cmb_timeseries_destroy(ts); free(tr); free(tr2);
    }
    if (n >= 2) vr_mark_nontrivial();
out:
    cmb_dataset_destroy(d); free(sorted); free(x);
}

/* count bar characters of one printed histogram line after the '|' */
static double bar_len(const char *line) { const char *p = strrchr(line, '|'); if (!p) return -1; double l = 0; for (p++; *p; p++) { if (*p == '#') l += 1; else if (*p == '=') l += 0.75; else if (*p == '-') l += 0.25; } return l; }

/* bin counts around and beyond 2^16: every sample still lands in the bin its value says, in the table and in the printed picture */
static void c18_hist_many_bins(vr_rng *r)
{
    static const unsigned nbs[] = { 65533, 65534, 65535, 65536, 65537, 70000, 131075 };
    unsigned nb = nbs[vr_below(r, 7)]; size_t n = 50 + vr_below(r, 300);
    double lo = (double)vr_below(r, 100), hi = lo + (double)nb * (double)(1 + vr_below(r, 3));
    double *x = malloc(n * sizeof *x);
    for (size_t k = 0; k < n; k++) { double u = vr_unit(r); x[k] = vr_chance(r, 1, 10) ? (vr_chance(r, 1, 2) ? lo - 1.0 - u : hi + 1.0 + u) : lo + (hi - lo) * (vr_chance(r, 1, 3) ? 0.9 + 0.1 * u : u); }
    double bs = (hi - lo) / (double)nb; double *expect = calloc((size_t)nb + 2, sizeof *expect), emax = 0;
    for (size_t k = 0; k < n; k++) { unsigned b; if (x[k] < lo) b = 0; else if (x[k] > hi) b = nb + 1; else { b = 1 + (unsigned)((x[k] - lo) / bs); if (b > nb + 1) b = nb + 1; } expect[b] += 1.0; if (expect[b] > emax) emax = expect[b]; }
    struct cmi_dataset_histogram *h = cmi_dataset_histogram_create(nb, lo, hi);
    cmi_dataset_histogram_fill(h, n, x);
    if (h->num_bins != nb + 2) vr_violation("C18/hist-bins", "histogram has %u bins for %u requested", h->num_bins, nb);
    else for (unsigned b = 0; b < nb + 2; b++) if (h->hbins[b] != expect[b]) { vr_violation("C18/hist-placement/many-bins", "bin %u of %u+2 holds %g samples, definition gives %g (n=%zu on [%g,%g])", b, nb, h->hbins[b], expect[b], n, lo, hi); break; }
    cmi_dataset_histogram_destroy(h);
    if (vr_nviol == 0) {
        struct cmb_dataset *d = cmb_dataset_create(); for (size_t k = 0; k < n; k++) cmb_dataset_add(d, x[k]);
        char *buf = NULL; size_t bl = 0; FILE *mf = open_memstream(&buf, &bl);
        cmb_dataset_histogram_print(d, mf, nb, lo, hi); fclose(mf);
        unsigned b = 0; char *save = NULL; bool bad = false; char why[160] = "";
        for (char *ln = strtok_r(buf, "\n", &save); ln && !bad; ln = strtok_r(NULL, "\n", &save)) {
            if (ln[0] != '[' && ln[0] != '(') continue;
            if (b >= nb + 2) { bad = true; snprintf(why, sizeof why, "more bin lines than %u+2", nb); break; }
            double l = bar_len(ln), want = expect[b] * 50.0 / emax;
            if (fabs(l - want) > 1.0) { bad = true; snprintf(why, sizeof why, "bin %u: bar %.2f chars, %g samples of at most %g give %.2f", b, l, expect[b], emax, want); }
            b++;
        }
        if (!bad && b != nb + 2) { bad = true; snprintf(why, sizeof why, "%u bin lines printed, expected %u", b, nb + 2); }
        if (bad) vr_violation("C18/hist-print/many-bins", "printed histogram of %zu samples in %u bins on [%g,%g]: %s", n, nb, lo, hi, why);
        free(buf); cmb_dataset_destroy(d);
    }
    /* the time-weighted one takes a 16-bit bin count: its largest values */
    if (vr_nviol == 0) {
        unsigned nbt = vr_chance(r, 1, 2) ? 65535u : 65534u - (unsigned)vr_below(r, 3);
        double hit = lo + (double)nbt * 2.0, bst = (hit - lo) / (double)nbt;
        struct cmb_timeseries *ts = cmb_timeseries_create(); double t = 0, *wexp = calloc((size_t)nbt + 2, sizeof *wexp), wmax = 0;
        for (size_t k = 0; k < n; k++) { double v = x[k] > hit ? hit + 3.0 : x[k]; double dur = 0.25 * (double)(1 + vr_below(r, 8)); cmb_timeseries_add(ts, v, t); t += dur;
            unsigned b; if (v < lo) b = 0; else if (v > hit) b = nbt + 1; else { b = 1 + (unsigned)((v - lo) / bst); if (b > nbt + 1) b = nbt + 1; } wexp[b] += dur; if (wexp[b] > wmax) wmax = wexp[b]; }
        cmb_timeseries_finalize(ts, t);
        char *buf = NULL; size_t bl = 0; FILE *mf = open_memstream(&buf, &bl);
        cmb_timeseries_histogram_print(ts, mf, (uint16_t)nbt, lo, hit); fclose(mf);
        unsigned b = 0; char *save = NULL; bool bad = false; char why[160] = "";
        for (char *ln = strtok_r(buf, "\n", &save); ln && !bad; ln = strtok_r(NULL, "\n", &save)) {
            if (ln[0] != '[' && ln[0] != '(') continue;
            if (b >= nbt + 2) { bad = true; snprintf(why, sizeof why, "more bin lines than %u+2", nbt); break; }
            double l = bar_len(ln), want = wexp[b] * 50.0 / wmax;
            if (fabs(l - want) > 1.0) { bad = true; snprintf(why, sizeof why, "bin %u: bar %.2f chars, weight %g of at most %g gives %.2f", b, l, wexp[b], wmax, want); }
            b++;
        }
        if (!bad && b != nbt + 2) { bad = true; snprintf(why, sizeof why, "%u bin lines printed, expected %u", b, nbt + 2); }
        if (bad) vr_violation("C18/ts-hist/many-bins", "time-weighted histogram of %zu samples in %u bins on [%g,%g]: %s", n + 1, nbt, lo, hit, why);
        free(buf); free(wexp); cmb_timeseries_destroy(ts);
    }
    VR_CNT("histograms_with_2_16_or_more_bins");
    vr_mark_nontrivial();
    free(expect); free(x);
}

static void c18_hist(vr_rng *r)
{
    if (vr_chance(r, 1, 40)) { c18_hist_many_bins(r); return; }
    int cls = (int)vr_below(r, G_N); if (cls == G_BIG || cls == G_SMALL || cls == G_OFFSET) cls = G_HEAVY;
    size_t n = 1 + vr_below(r, 400);
    double *x = malloc(n * sizeof *x); gen_data(r, cls, x, n);
    unsigned nb = 1 + (unsigned)vr_below(r, 50);
    double mn = x[0], mx = x[0]; for (size_t k = 0; k < n; k++) { if (x[k] < mn) mn = x[k]; if (x[k] > mx) mx = x[k]; }
    double lo, hi; int rng = (int)vr_below(r, 4);     /* 0 wider, 1 narrower, 2 exact data range, 3 lattice */
    if (rng == 0) { lo = mn - 1 - vr_unit(r); hi = mx + 1 + vr_unit(r); } else if (rng == 1) { lo = mn + (mx - mn) * 0.25; hi = mx - (mx - mn) * 0.25; if (!(hi > lo)) hi = lo + 1; } else if (rng == 2) { lo = mn; hi = mx > mn ? mx : mn + 1; } else { lo = floor(mn); hi = floor(mn) + nb; }
    vr_fp_mix((uint64_t)cls); vr_fp_mix(n); vr_fp_mix(nb); vr_fp_mix((uint64_t)rng);
    struct cmi_dataset_histogram *h = cmi_dataset_histogram_create(nb, lo, hi);
    cmi_dataset_histogram_fill(h, n, x);
    double *expect = calloc(nb + 2, sizeof *expect); double bs = (hi - lo) / (double)nb; size_t outl = 0, outh = 0;
    for (size_t k = 0; k < n; k++) { unsigned b; if (x[k] < lo) { b = 0; outl++; } else if (x[k] > hi) { b = nb + 1; outh++; } else { b = 1 + (unsigned)((x[k] - lo) / bs); if (b > nb + 1) b = nb + 1; } expect[b] += 1.0; }
    double sum = 0; for (unsigned b = 0; b < h->num_bins; b++) sum += h->hbins[b];
    if (h->num_bins != nb + 2) vr_violation("C18/hist-bins", "histogram has %u bins for %u requested", h->num_bins, nb);
    else if (sum != (double)n) vr_violation("C18/hist-total", "histogram bins sum to %g for %zu samples", sum, n);
    else for (unsigned b = 0; b < nb + 2; b++) if (h->hbins[b] != expect[b]) { vr_violation("C18/hist-placement", "bin %u holds %g samples, definition gives %g (n=%zu, %u bins on [%g,%g])", b, h->hbins[b], expect[b], n, nb, lo, hi); break; }
    if (outl + outh) VR_CNT("hist_with_out_of_range_samples");
    VR_CNT("dataset_histograms");
    cmi_dataset_histogram_destroy(h);
    /* printed dataset histogram incl. autoscale: bars proportional to the counts */
    if (vr_nviol == 0) {
        struct cmb_dataset *d = cmb_dataset_create(); for (size_t k = 0; k < n; k++) cmb_dataset_add(d, x[k]);
        bool autoscale = vr_chance(r, 1, 3) && mx - mn >= 1.0;
        char *buf = NULL; size_t bl = 0; FILE *mf = open_memstream(&buf, &bl);
        cmb_dataset_histogram_print(d, mf, nb, autoscale ? 0.0 : lo, autoscale ? 0.0 : hi); fclose(mf);
        if (autoscale) VR_CNT("hist_autoscale");
        /* total bar length * scale must account for all n samples within one char per bin */
        double tot = 0, maxbar = 0; int lines = 0; char *save = NULL;
        for (char *ln = strtok_r(buf, "\n", &save); ln; ln = strtok_r(NULL, "\n", &save)) { if (ln[0] != '[' && ln[0] != '(') continue; double l = bar_len(ln); if (l < 0) continue; tot += l; if (l > maxbar) maxbar = l; lines++; }
        /* the longest bar is 50 chars = binmax; so tot/50*binmax ~ n.  binmax unknown here: use relation tot >= 50 and n/binmax = tot/50 +- lines/50 */
        if (lines < 3 || maxbar < 49.7 || maxbar > 50.8) vr_violation("C18/hist-print", "printed histogram has %d bin lines, longest bar %.2f (expected 50)", lines, maxbar);
        free(buf); cmb_dataset_destroy(d); VR_CNT("printed_histograms_parsed");
    }
    /* time-series histogram: bars proportional to durations */
    if (vr_nviol == 0 && n >= 2) {
        struct cmb_timeseries *ts = cmb_timeseries_create(); struct trip *tr = malloc((n + 2) * sizeof *tr);
        int wpat = (int)vr_below(r, 4);
        build_ts(r, ts, x, n, wpat, tr);
        size_t m = n + 1;
        unsigned nbt = nb; unsigned datarange = (unsigned)ceil(hi - lo); if (datarange < nbt) nbt = datarange > 0 ? datarange : 1;
        double bst = (hi - lo) / (double)nbt;
        double *wexp = calloc(nbt + 2, sizeof *wexp), wmax = 0, wtot = 0;
        for (size_t k = 0; k + 1 < m; k++) { unsigned b; if (tr[k].x < lo) b = 0; else if (tr[k].x > hi) b = nbt + 1; else { b = 1 + (unsigned)((tr[k].x - lo) / bst); if (b > nbt + 1) b = nbt + 1; } wexp[b] += tr[k].w; wtot += tr[k].w; }
        for (unsigned b = 0; b < nbt + 2; b++) if (wexp[b] > wmax) wmax = wexp[b];
        char *buf = NULL; size_t bl = 0; FILE *mf = open_memstream(&buf, &bl);
        cmb_timeseries_histogram_print(ts, mf, (uint16_t)nb, lo, hi); fclose(mf);
        unsigned b = 0; char *save = NULL; bool bad = false; char why[200] = "";
        for (char *ln = strtok_r(buf, "\n", &save); ln && !bad; ln = strtok_r(NULL, "\n", &save)) {
            if (ln[0] != '[' && ln[0] != '(') continue;
            double l = bar_len(ln); double want = wmax > 0 ? wexp[b] * 50.0 / wmax : 0;
            if (b >= nbt + 2) { bad = true; snprintf(why, sizeof why, "more bin lines than %u+2", nbt); break; }
            if (fabs(l - want) > 1.0) { bad = true; snprintf(why, sizeof why, "bin %u: bar %.2f chars, weights give %.2f (bin weight %g of %g, max %g)", b, l, want, wexp[b], wtot, wmax); }
            b++;
        }
        if (!bad && b != nbt + 2) { bad = true; snprintf(why, sizeof why, "%u bin lines printed, expected %u", b, nbt + 2); }
        if (bad) vr_violation("C18/ts-hist", "time-weighted histogram (%zu samples, %u bins on [%g,%g], weights class %d): %s", m, nb, lo, hi, wpat, why);
        VR_CNT("ts_histograms_parsed");
        free(buf); free(wexp); free(tr); cmb_timeseries_destroy(ts);
    }
    vr_mark_nontrivial();
    free(expect); free(x);
}

static void c18_acf(vr_rng *r)
{
    size_t n = 4 + vr_below(r, 300);
    double *x = malloc(n * sizeof *x);
    int cls = (int)vr_below(r, 4);       /* 0 white noise, 1 AR(1)-like, 2 periodic, 3 small ints */
    double prev = 0;
    for (size_t k = 0; k < n; k++) { double e = vr_unit(r) - 0.5; x[k] = cls == 0 ? e : cls == 1 ? (prev = 0.8 * prev + e) : cls == 2 ? sin((double)k * 0.7) + 0.1 * e : (double)vr_below(r, 5); }
    { bool allsame = true; for (size_t k = 1; k < n; k++) if (x[k] != x[0]) allsame = false; if (allsame) x[0] += 1.0; }
    unsigned lags = 1 + (unsigned)vr_below(r, n - 3 > 40 ? 40 : n - 3);
    vr_fp_mix((uint64_t)cls); vr_fp_mix(n); vr_fp_mix(lags);
    struct cmb_dataset *d = cmb_dataset_create(); for (size_t k = 0; k < n; k++) cmb_dataset_add(d, x[k]);
    double *acf = calloc(lags + 2, sizeof *acf), *pacf = calloc(lags + 2, sizeof *pacf);
    cmb_dataset_ACF(d, lags, acf);
    cmb_dataset_PACF(d, lags, pacf, NULL);
    VR_CNT("acf_computed");
    /* the correlograms of both get printed: one line per lag, the bar in proportion to the coefficient and full width beyond +-1 (this estimator
     * divides by the number of products, so short series give coefficients beyond one at the larger lags) */
    for (int which = 0; which < 2 && vr_nviol == 0; which++) {
        const double *cf = which ? pacf : acf; bool fin = true; for (unsigned l = 1; l <= lags; l++) if (!(fabs(cf[l]) < 1e300)) fin = false;
        if (!fin) continue;
        char *buf = NULL; size_t bl = 0; FILE *mf = open_memstream(&buf, &bl); cmb_dataset_correlogram_print(d, mf, lags, (double *)cf); fclose(mf);
        unsigned seen = 0; char *save = NULL; bool beyond = false;
        for (char *ln = strtok_r(buf, "\n", &save); ln && vr_nviol == 0; ln = strtok_r(NULL, "\n", &save)) {
            unsigned lag = 0; double val = 0; int used = 0; if (sscanf(ln, "%u %lf%n", &lag, &val, &used) < 2 || lag != seen + 1) continue;
            seen++; double a = fabs(cf[lag]); if (a > 1.0) { a = 1.0; beyond = true; }
            unsigned full = 0; for (const char *c = ln; *c; c++) if (*c == '#') full++;
            { size_t len = strlen(ln); const char *bar = strchr(ln, '|'); if (len > 100 || !bar || (size_t)(bar - ln) != (size_t)used + 1 + 33) vr_violation("C18/correlogram-layout", "%s correlogram, lag %u (coefficient %.6g): line of %zu characters with the axis at column %zd (expected 33 columns after the number, which ends at %d)", which ? "PACF" : "ACF", lag, cf[lag], len, bar ? bar - ln : -1, used); }
            if (full != (unsigned)floor(33.0 * a)) vr_violation("C18/correlogram-bar", "%s correlogram, lag %u: coefficient %.6g drawn with %u full characters, expected %u of 33", which ? "PACF" : "ACF", lag, cf[lag], full, (unsigned)floor(33.0 * a));
        }
        if (vr_nviol == 0 && seen != lags) vr_violation("C18/correlogram-lines", "%s correlogram of %u lags has %u lag lines", which ? "PACF" : "ACF", lags, seen);
        free(buf); VR_CNT("correlograms_parsed"); if (beyond) VR_CNT("correlograms_with_coefficients_beyond_one");
    }
    if (acf[0] != 1.0) vr_violation("C18/acf-lag0", "ACF[0]=%g", acf[0]);
    if (pacf[0] != 1.0) vr_violation("C18/pacf-lag0", "PACF[0]=%g", pacf[0]);
    if (fabs(pacf[1] - acf[1]) > 1e-12) vr_violation("C18/pacf-lag1", "PACF[1]=%g but ACF[1]=%g", pacf[1], acf[1]);
    /* independent reference for the ACF definition used (lag-normalised covariance over sample variance) */
    { q_t m = 0; for (size_t k = 0; k < n; k++) m += x[k]; m /= (q_t)n; q_t v = 0; for (size_t k = 0; k < n; k++) v += ((q_t)x[k] - m) * ((q_t)x[k] - m); v /= (q_t)(n - 1);
      for (unsigned l = 1; l <= lags && vr_nviol == 0; l++) { q_t c = 0; for (size_t k = 0; k + l < n; k++) c += ((q_t)x[k] - m) * ((q_t)x[k + l] - m); c /= (q_t)(n - l); double want = (double)(c / v); if (fabs(acf[l] - want) > 1e-9 * (1 + fabs(want))) vr_violation("C18/acf-value", "ACF[%u]=%.12g, definition gives %.12g (n=%zu)", l, acf[l], want, n); } }
    static const double as[] = { 1e-6, 1e-3, 7.0, 1e6 };
    for (int q = 0; q < 4 && vr_nviol == 0; q++) {
        double a = as[q], b = vr_chance(r, 1, 2) ? 0.0 : (vr_unit(r) - 0.5) * 100 * a;
        struct cmb_dataset *d2 = cmb_dataset_create(); for (size_t k = 0; k < n; k++) cmb_dataset_add(d2, a * x[k] + b);
        double *acf2 = calloc(lags + 2, sizeof *acf2), *pacf2 = calloc(lags + 2, sizeof *pacf2);
        cmb_dataset_ACF(d2, lags, acf2); cmb_dataset_PACF(d2, lags, pacf2, acf2);
        for (unsigned l = 0; l <= lags; l++) {
            double tol = 1e-9 + (b != 0 ? 1e-7 : 0);
            if (fabs(acf2[l] - acf[l]) > tol * (1 + fabs(acf[l]))) {
                double var = 0, mm = 0; for (size_t k = 0; k < n; k++) mm += a * x[k] + b; mm /= (double)n; for (size_t k = 0; k < n; k++) var += (a * x[k] + b - mm) * (a * x[k] + b - mm); var /= (double)(n - 1);
                bool allzero = true; for (unsigned z = 1; z <= lags; z++) if (acf2[z] != 0.0) allzero = false;
                vr_violation(allzero && var < 1e-9 ? "C18/acf-scale/var<1e-9-rounded-to-zero" : "C18/acf-scale/changed", "ACF[%u] changed from %.10g to %.10g under x -> %g*x + %g (n=%zu, variance of scaled data %.3g)", l, acf[l], acf2[l], a, b, n, var); break; }
            /* Durbin-Levinson on this (not positive semi-definite) ACF estimator can be arbitrarily ill-conditioned: |PACF| > 1 marks such a case, where rounding noise dominates and nothing is compared */
            bool wellcond = true; for (unsigned z = 1; z <= l; z++) if (!(fabs(pacf[z]) <= 1.0)) wellcond = false;
            if (!wellcond) { VR_CNT("pacf_ill_conditioned_skipped"); break; }
            if (fabs(pacf2[l] - pacf[l]) > 1e-6 * (1 + fabs(pacf[l]))) { vr_violation("C18/pacf-scale", "PACF[%u] changed from %.10g to %.10g under x -> %g*x + %g", l, pacf[l], pacf2[l], a, b); break; }
        }
        VR_CNT("acf_scale_relations");
        free(acf2); free(pacf2); cmb_dataset_destroy(d2);
    }
    /* a unit in which the variance is just representable (samples around 1e-155, their squares at the bottom of the normal range): the
     * coefficients are ratios and stay what they are, to the precision the squares still have */
    if (vr_nviol == 0) {
        double a = ldexp(1.0, -514 - (int)vr_below(r, 5));
        struct cmb_dataset *d2 = cmb_dataset_create(); for (size_t k = 0; k < n; k++) cmb_dataset_add(d2, a * x[k]);
        double *acf2 = calloc(lags + 2, sizeof *acf2); cmb_dataset_ACF(d2, lags, acf2);
        for (unsigned l = 0; l <= lags; l++) if (!(fabs(acf2[l] - acf[l]) <= 1e-5 * (1 + fabs(acf[l])))) { vr_violation("C18/acf-scale/tiny-unit", "ACF[%u] changed from %.10g to %.10g under x -> 2^%d * x (n=%zu)", l, acf[l], acf2[l], (int)log2(a), n); break; }
        VR_CNT("acf_scale_relations_in_a_tiny_unit");
        free(acf2); cmb_dataset_destroy(d2);
    }
    /* far shifts: data at a huge distance from zero relative to its spread (counters, timestamps). The samples are made integer
     * valued first so that x + c is exact and the shifted data are the same data; c up to 1e10 keeps the mean's rounding error far
     * below the tolerance */
    if (vr_nviol == 0) {
        double *xi = malloc(n * sizeof *xi); bool same = true;
        for (size_t k = 0; k < n; k++) { xi[k] = cls == 3 ? x[k] : floor(x[k] * 40.0); if (xi[k] != xi[0]) same = false; }
        if (!same) {
            struct cmb_dataset *d0 = cmb_dataset_create(); for (size_t k = 0; k < n; k++) cmb_dataset_add(d0, xi[k]);
            double *acf0 = calloc(lags + 2, sizeof *acf0); cmb_dataset_ACF(d0, lags, acf0);
            static const double cs[] = { 1e6, 1e8, 1e9, 1e10, -3e9, -1e10 };
            for (int q = 0; q < 6 && vr_nviol == 0; q++) {
                double sc = (q & 1) ? 8.0 : 1.0;
                struct cmb_dataset *d2 = cmb_dataset_create(); for (size_t k = 0; k < n; k++) cmb_dataset_add(d2, sc * (xi[k] + cs[q]));
                double *acf2 = calloc(lags + 2, sizeof *acf2); cmb_dataset_ACF(d2, lags, acf2);
                for (unsigned l = 0; l <= lags; l++) if (fabs(acf2[l] - acf0[l]) > 1e-5 * (1 + fabs(acf0[l]))) {
                    vr_violation("C18/acf-shift/changed", "ACF[%u] changed from %.10g to %.10g under x -> %g*(x + %g) for integer-valued data (n=%zu)", l, acf0[l], acf2[l], sc, cs[q], n); break; }
                VR_CNT("acf_far_shift_relations");
                free(acf2); cmb_dataset_destroy(d2);
            }
            free(acf0); cmb_dataset_destroy(d0);
        }
        free(xi);
    }
    /* the time-series entry point is the same function: every admissible number of lags up to count - 1, bit for bit */
    if (vr_nviol == 0) {
        struct cmb_timeseries *ts = cmb_timeseries_create(); for (size_t k = 0; k < n; k++) cmb_timeseries_add(ts, x[k], (double)k);
        unsigned l2 = vr_chance(r, 1, 2) ? (unsigned)(n - 1) : lags;           /* the largest admissible one in half of the cases */
        double *a1 = malloc((l2 + 2) * sizeof *a1), *a2 = malloc((l2 + 2) * sizeof *a2);
        for (unsigned l = 0; l <= l2 + 1; l++) a1[l] = a2[l] = 7e300;
        cmb_dataset_ACF(d, l2, a1); cmb_timeseries_ACF(ts, (uint16_t)l2, a2);
        for (unsigned l = 0; l <= l2; l++) if (memcmp(&a1[l], &a2[l], 8) != 0 || a1[l] == 7e300) {      /* (this estimator may leave [-1, 1] for short series) */ vr_violation("C18/acf-value", "lag %u of %u (n=%zu): dataset entry point gives %.12g, time-series entry point %.12g", l, l2, n, a1[l], a2[l]); break; }
        if (a1[l2 + 1] != 7e300 || a2[l2 + 1] != 7e300) vr_violation("C18/acf-overrun", "ACF with %u lags wrote beyond element %u", l2, l2);
        if (l2 == n - 1) VR_CNT("acf_with_the_largest_admissible_lag"); VR_CNT("acf_through_the_time_series_entry_point");
        free(a1); free(a2); cmb_timeseries_destroy(ts);
    }
    vr_mark_nontrivial();
    free(acf); free(pacf); cmb_dataset_destroy(d); free(x);
}

/* more lags than fit 16 bits: 66000 samples, 65600 lags; a sample of the coefficients against the definition, all of them written */
static void c18_acf_many_lags(vr_rng *r)
{
    size_t n = 66000; unsigned lags = 65537 + (unsigned)vr_below(r, 400);
    double *x = malloc(n * sizeof *x); double prev = 0;
    for (size_t k = 0; k < n; k++) { double e = vr_unit(r) - 0.5; x[k] = prev = 0.9 * prev + e; }
    struct cmb_dataset *d = cmb_dataset_create(); for (size_t k = 0; k < n; k++) cmb_dataset_add(d, x[k]);
    double *acf = malloc((lags + 2) * sizeof *acf); for (unsigned l = 0; l <= lags + 1; l++) acf[l] = 7e300;
    cmb_dataset_ACF(d, lags, acf);
    unsigned unwritten = 0; for (unsigned l = 0; l <= lags; l++) if (acf[l] == 7e300) unwritten++;
    if (unwritten) vr_violation("C18/acf-value", "ACF with %u lags on %zu samples: %u coefficients were never calculated", lags, n, unwritten);
    else if (acf[lags + 1] != 7e300) vr_violation("C18/acf-overrun", "ACF with %u lags wrote beyond element %u", lags, lags);
    else { q_t m = 0; for (size_t k = 0; k < n; k++) m += x[k]; m /= (q_t)n; q_t v = 0; for (size_t k = 0; k < n; k++) v += ((q_t)x[k] - m) * ((q_t)x[k] - m); v /= (q_t)(n - 1);
        for (int q = 0; q < 12 && vr_nviol == 0; q++) { unsigned l = q < 2 ? lags - (unsigned)q : 1 + (unsigned)vr_below(r, lags); q_t c = 0; for (size_t k = 0; k + l < n; k++) c += ((q_t)x[k] - m) * ((q_t)x[k + l] - m); c /= (q_t)(n - l); double want = (double)(c / v);
            if (fabs(acf[l] - want) > 1e-7 * (1 + fabs(want))) vr_violation("C18/acf-value", "ACF[%u] of %u = %.12g, definition gives %.12g (n=%zu)", l, lags, acf[l], want, n); } }
    VR_CNT("acf_with_more_than_65535_lags"); vr_mark_nontrivial(); vr_fp_mix(lags);
    free(acf); cmb_dataset_destroy(d); free(x);
}

void vr_case(uint64_t seed, uint64_t idx, int profile)
{
    cmb_logger_flags_off(CMB_LOGGER_INFO | CMB_LOGGER_WARNING);
    vr_rng r = vr_rng_make(seed, idx, 0xC17 + (uint64_t)profile);
    vr_fp_mix((uint64_t)profile);
    int reps = profile <= 1 ? 4 : profile == 2 ? 2 : 4;
    for (int k = 0; k < reps && vr_nviol == 0; k++) {
        switch (profile) {
        case 0: c17_unweighted(&r); if (vr_nviol == 0) c17_huge_counts(&r); break;
        case 1: c17_weighted(&r); break;
        case 2: c18_order(&r); break;
        case 3: c18_hist(&r); break;
        case 5: if (k == 0) c18_acf_many_lags(&r); break;
        default: c18_acf(&r); break;
        }
        VR_CNT("inputs");
    }
    if (profile == 0) VR_MAX("max_err_over_bound_ppm", (uint64_t)(worst_ratio * 1e6));
    if (idx % 211 == 0) vr_sample("profile %d: %d generated inputs (classes uniform/heavy/constant/two-valued/offset/magnitude/ints/sorted), worst err/bound %.3g", profile, reps, worst_ratio);
}

int main(int argc, char **argv) { return vr_main(argc, argv); }
