/*
 * rngbulk - high-volume histogram of the table-driven (ziggurat) samplers, for rngbulk.py (property C16).
 *     rngbulk <seed> <draws per thread> <threads> <sampler> [params]
 * Every thread seeds its own stream (seed derived from <seed> and the thread index), draws, and counts the draws in
 * equal-width bins of width 1/128 (exponential family: [0, 24), normal family: [-12, 12)), plus everything outside,
 * NaNs, negatives (exponential family) and the extreme values. Prints one JSON object. The analysis is done elsewhere;
 * this program knows nothing about what the counts should be.
 */
#include <stdio.h>
#include <stdlib.h>
#include <string.h>
#include <stdint.h>
#include <math.h>
#include <pthread.h>
#include "cimba.h"

#define NB 3072
struct th { uint64_t seed, n; int sampler; double p0, p1; const double *vec; unsigned vn; uint64_t cnt[NB], below, above, nan; double mn, mx; };

static void *body(void *vp)
{
    struct th *t = vp;
    cmb_logger_flags_off(CMB_LOGGER_INFO | CMB_LOGGER_WARNING);
    cmb_random_initialize(t->seed);
    t->mn = INFINITY; t->mx = -INFINITY;
    const double off = (t->sampler == 2 || t->sampler == 3) ? 12.0 : 0.0;
    if (t->sampler >= 10) {       /* integer-valued samplers: one bin per value */
        struct cmb_random_alias *al = t->sampler == 10 ? cmb_random_alias_create(t->vn, t->vec) : NULL;
        for (uint64_t k = 0; k < t->n; k++) {
            int64_t v;
            switch (t->sampler) {
            case 10: v = (int64_t)cmb_random_alias_sample(al); break;
            case 11: v = (int64_t)cmb_random_loaded_dice(t->vn, t->vec); break;
            case 12: v = cmb_random_dice((long)t->p0, (long)t->p1) - (long)t->p0; break;
            case 13: v = (int64_t)cmb_random_flip(); break;
            case 14: v = (int64_t)cmb_random_bernoulli(t->p0); break;
            case 15: v = (int64_t)cmb_random_geometric(t->p0); break;
            case 16: v = (int64_t)cmb_random_poisson(t->p0); break;
            default: v = (int64_t)cmb_random_binomial((unsigned)t->p0, t->p1); break;
            }
            if ((double)v < t->mn) t->mn = (double)v;
            if ((double)v > t->mx) t->mx = (double)v;
            if (v < 0) t->below++; else if (v >= NB) t->above++; else t->cnt[v]++;
        }
        if (al) cmb_random_alias_destroy(al);
        cmb_random_terminate();
        return NULL;
    }
    for (uint64_t k = 0; k < t->n; k++) {
        double x;
        switch (t->sampler) {
        case 0: x = cmb_random_std_exponential(); break;
        case 1: x = cmb_random_exponential(t->p0) / t->p0; break;
        case 2: x = cmb_random_std_normal(); break;
        default: x = (cmb_random_normal(t->p0, t->p1) - t->p0) / t->p1; break;
        }
        if (x != x) { t->nan++; continue; }
        if (x < t->mn) t->mn = x;
        if (x > t->mx) t->mx = x;
        const double y = (x + off) * 128.0;
        if (y < 0.0) t->below++;
        else if (y >= (double)NB) t->above++;
        else t->cnt[(unsigned)y]++;
    }
    cmb_random_terminate();
    return NULL;
}

static uint64_t mix(uint64_t z) { z += 0x9e3779b97f4a7c15ull; z = (z ^ (z >> 30)) * 0xbf58476d1ce4e5b9ull; z = (z ^ (z >> 27)) * 0x94d049bb133111ebull; return z ^ (z >> 31); }

int main(int argc, char **argv)
{
    if (argc < 5) return 2;
    uint64_t seed = strtoull(argv[1], NULL, 0), n = strtoull(argv[2], NULL, 0); int nt = atoi(argv[3]);
    const char *s = argv[4];
    int sampler = !strcmp(s, "std_exponential") ? 0 : !strcmp(s, "exponential") ? 1 : !strcmp(s, "std_normal") ? 2 : !strcmp(s, "normal") ? 3 : -1;
    static const char *const disc[] = { "alias", "loaded_dice", "dice", "flip", "bernoulli", "geometric", "poisson", "binomial" };
    for (int k = 0; k < 8; k++) if (!strcmp(s, disc[k])) sampler = 10 + k;
    if (sampler < 0 || nt < 1 || nt > 64) return 2;
    double p0 = argc > 5 ? strtod(argv[5], NULL) : 1.0, p1 = argc > 6 ? strtod(argv[6], NULL) : 1.0;
    static double vec[64]; unsigned vn = 0;
    if (sampler == 10 || sampler == 11) { vn = (unsigned)p0; for (unsigned k = 0; k < vn && k < 64 && 6 + (int)k < argc; k++) vec[k] = strtod(argv[6 + k], NULL); }
    struct th *T = calloc((size_t)nt, sizeof *T); pthread_t *ids = calloc((size_t)nt, sizeof *ids);
    for (int k = 0; k < nt; k++) { T[k].seed = mix(seed ^ mix((uint64_t)k + 1)); T[k].n = n; T[k].sampler = sampler; T[k].p0 = p0; T[k].p1 = p1; T[k].vec = vec; T[k].vn = vn; pthread_create(&ids[k], NULL, body, &T[k]); }
    for (int k = 0; k < nt; k++) pthread_join(ids[k], NULL);
    uint64_t below = 0, above = 0, nan = 0; double mn = INFINITY, mx = -INFINITY;
    for (int k = 1; k < nt; k++) for (int b = 0; b < NB; b++) T[0].cnt[b] += T[k].cnt[b];
    for (int k = 0; k < nt; k++) { below += T[k].below; above += T[k].above; nan += T[k].nan; if (T[k].mn < mn) mn = T[k].mn; if (T[k].mx > mx) mx = T[k].mx; }
    printf("{\"sampler\":\"%s\",\"draws\":%llu,\"below\":%llu,\"above\":%llu,\"nan\":%llu,\"min\":%.17g,\"max\":%.17g,\"offset\":%g,\"per_unit\":128,\"counts\":[",
           s, (unsigned long long)(n * (uint64_t)nt), (unsigned long long)below, (unsigned long long)above, (unsigned long long)nan, mn, mx, (sampler == 2 || sampler == 3) ? 12.0 : 0.0);
    for (int b = 0; b < NB; b++) printf("%s%llu", b ? "," : "", (unsigned long long)T[0].cnt[b]);
    printf("]}\n");
    return 0;
}
