/*
 * corofuzz - random interleavings of raw coroutines with register / MXCSR
 * probes, stack canaries and unique message tokens.            Property C03.
 *
 * profile 0: API level   - start / resume / transfer / yield / return / exit /
 *            stop / restart through cmi_coroutine_*, every switching call made
 *            through probe_call (callee-saved registers and MXCSR loaded with
 *            per-call patterns before, compared after).
 * profile 1: mechanism level - harness-owned contexts built by the real
 *            cmi_coroutine_context_init, switched with the assembly
 *            cmi_coroutine_context_switch called directly from probe_switch.
 */
#include "vr.h"
#include "cimba.h"
#include "cmi_coroutine.h"

extern uint64_t probe_call(void *(*fn)(void *), void *arg, const uint64_t in[6], uint32_t mxcsr_in, uint64_t out[6], uint32_t *mxcsr_out);
extern uint64_t probe_idflag_in, probe_flags_out;     /* RFLAGS.ID set before the probed call / RFLAGS found after it */
extern uint64_t probe_switch(void **old, void **new_, void *ret, const uint64_t in[6], uint32_t mxcsr_in, uint64_t out[6], uint32_t *mxcsr_out);
extern void *probe_entry(struct cmi_coroutine *, void *);
extern void probe_exit_entry(void *);
extern uint64_t probe_entry_rsp; extern uint32_t probe_entry_mxcsr; extern void *probe_entry_target; extern uint64_t probe_exit_rsp; extern void *probe_exit_target;
extern void *cmi_coroutine_context_switch(void **old, void **new_, void *ret);
extern void cmi_coroutine_context_init(struct cmi_coroutine *cp);

#define MAXCO 24
static vr_rng R;
static int budget;                 /* remaining switches in this case */

static uint64_t pat64(void)
{
    static const uint64_t corner[] = { 0, ~0ull, 0x8000000000000000ull, 1, 0x7fffffffffffffffull, 0x00000000ffffffffull, 0xdeadbeefcafef00dull };
    return vr_chance(&R, 1, 5) ? corner[vr_below(&R, 7)] : vr_next(&R);
}
static uint32_t pat_mxcsr(void)
{
    /* rounding mode (13-14), FTZ (15), DAZ (6), any masks (7-12), any sticky flags (0-5). No FP arithmetic happens while a pattern is loaded. */
    uint32_t v = (uint32_t)vr_below(&R, 4) << 13;
    if (vr_chance(&R, 1, 3)) v |= 1u << 15;
    if (vr_chance(&R, 1, 3)) v |= 1u << 6;
    v |= ((uint32_t)vr_below(&R, 64)) << 7;
    v |= (uint32_t)vr_below(&R, 64);
    if (vr_chance(&R, 1, 4)) v = 0x1f80;
    return v;
}
static bool check_regs(const uint64_t in[6], const uint64_t out[6], uint32_t mi, uint32_t mo, const char *where, int who)
{
    static const char *rn[6] = { "rbx", "rbp", "r12", "r13", "r14", "r15" };
    for (int k = 0; k < 6; k++) if (in[k] != out[k]) {
        char key[64]; snprintf(key, sizeof key, "C03/register/%s", rn[k]);
        vr_violation(key, "%s: coroutine %d had %s=%#" PRIx64 " before the switch and %#" PRIx64 " when it continued", where, who, rn[k], in[k], out[k]);
        return false;
    }
    if (mi != mo) { vr_violation("C03/mxcsr", "%s: coroutine %d had MXCSR=%#x before the switch and %#x when it continued", where, who, mi, mo); return false; }
    VR_CNT("probed_switches");
    return true;
}

/* =========================================================== profile 0 === */
enum { ST_CREATED, ST_RUNNING, ST_FINISHED };
static struct cmi_coroutine *co[MAXCO];
static int nco, cur;                                  /* cur = -1 : main */
static int st[MAXCO], caller_of[MAXCO], parent_of[MAXCO], kids[MAXCO], started[MAXCO];
static size_t stack_size_of[MAXCO];
static uint64_t expect_tok; static int expect_tgt; static bool expect_new;
static uint64_t exit_tok[MAXCO]; static bool exited_pending; static int exited_who;
static uint64_t tokctr;
#define MAIN (-1)
static int alive(int id) { return id == MAIN || st[id] == ST_RUNNING; }

struct sw { int kind; int tgt; uint64_t tok; };      /* kind: 0 resume, 1 transfer, 2 yield, 3 start */
static void *sw_resume(void *a) { struct sw *s = a; return cmi_coroutine_resume(co[s->tgt], (void *)s->tok); }
static void *sw_transfer(void *a) { struct sw *s = a; return cmi_coroutine_transfer(s->tgt == MAIN ? cmi_coroutine_main() : co[s->tgt], (void *)s->tok); }
static void *sw_yield(void *a) { struct sw *s = a; return cmi_coroutine_yield((void *)s->tok); }
static void *sw_start(void *a) { struct sw *s = a; return cmi_coroutine_start(co[s->tgt], (void *)s->tok); }

/* perform one switching call from coroutine `me`, fully probed; returns false on violation */
static bool do_switch(int me, struct sw *s)
{
    uint64_t in[6], out[6]; uint32_t mi = pat_mxcsr(), mo = 0;
    for (int k = 0; k < 6; k++) in[k] = pat64();
    if (vr_chance(&R, 1, 8) && s->tgt >= 0) in[vr_below(&R, 6)] = (uint64_t)(uintptr_t)co[s->tgt]->stack;   /* the peer's stack address */
    int tgt = s->kind == 2 ? caller_of[me] : s->tgt;
    s->tok = ++tokctr * 0x9e3779b97f4a7c15ull;
    expect_tok = s->tok; expect_tgt = tgt; expect_new = (s->kind == 3);
    if (s->kind == 3) { st[tgt] = ST_RUNNING; parent_of[tgt] = me; if (me >= 0) kids[me]++; started[tgt]++; if (started[tgt] > 1) VR_CNT("restarts"); else VR_CNT("starts"); }
    if (tgt >= 0) caller_of[tgt] = me;
    else if (s->kind != 2 || 1) { /* main has no caller slot */ }
    cur = tgt;
    budget--;
    vr_fp_mix((uint64_t)(s->kind * 31 + (tgt + 1)));
    void *(*fn)(void *) = s->kind == 0 ? sw_resume : s->kind == 1 ? sw_transfer : s->kind == 2 ? sw_yield : sw_start;
    uint64_t idf = vr_chance(&R, 1, 2) ? 0x200000u : 0; probe_idflag_in = idf;
    uint64_t ret = probe_call(fn, s, in, mi, out, &mo);
    { uint64_t fo = probe_flags_out; if ((fo & 0x200000u) != idf) { vr_violation("C03/flags", "API level: coroutine %d had RFLAGS.ID=%d before the switch and %d when it continued", me, idf != 0, (fo & 0x200000u) != 0); return false; } }
    /* ---- we are running again (possibly much later) */
    if (cur != me) { vr_violation("C03/wrong-continuation", "coroutine %d continued although control was handed to %d", me, cur); return false; }
    if (!check_regs(in, out, mi, mo, "API level", me)) return false;
    /* a (re)start lays out the initial frame at the top of the coroutine's own stack block, every time at the same place */
    if (s->kind == 3 && s->tgt >= 0) { struct cmi_coroutine *c = co[s->tgt]; size_t gap = (size_t)((c->stack + stack_size_of[s->tgt]) - c->stack_base);
        if (c->stack_base > c->stack + stack_size_of[s->tgt] || gap >= 32) { vr_violation("C03/stack-top-moved", "coroutine %d after start number %d: its stack top lies %zu bytes below the end of its %zu-byte block", s->tgt, started[s->tgt], gap, stack_size_of[s->tgt]); return false; }
        VR_CNT("stack_tops_checked_after_a_start"); }
    if (exited_pending) {
        /* somebody returned / exited: control must arrive at its parent with the exit value */
        int w = exited_who; exited_pending = false;
        if (parent_of[w] != me) { vr_violation("C03/exit-to-wrong-coroutine", "coroutine %d ended; control arrived at %d, its starter is %d", w, me, parent_of[w]); return false; }
        if (ret != exit_tok[w]) { vr_violation("C03/exit-value-delivery", "coroutine %d ended with value %#" PRIx64 " but its starter received %#" PRIx64, w, exit_tok[w], ret); return false; }
        if (co[w]->status != CMI_COROUTINE_FINISHED || (uint64_t)(uintptr_t)cmi_coroutine_exit_value(co[w]) != exit_tok[w]) { vr_violation("C03/exit-value-stored", "coroutine %d: status %d exit_value %p after ending with %#" PRIx64, w, (int)co[w]->status, cmi_coroutine_exit_value(co[w]), exit_tok[w]); return false; }
        VR_CNT("ends_observed_by_starter");
    } else {
        if (expect_tgt != me) { vr_violation("C03/wrong-continuation", "coroutine %d continued but %d was the target", me, expect_tgt); return false; }
        if (ret != expect_tok) { vr_violation("C03/message", "coroutine %d received %#" PRIx64 " from its switch call, the message sent was %#" PRIx64, me, ret, expect_tok); return false; }
        VR_CNT("messages_delivered");
    }
    return true;
}

static bool act(int me, int depth);

/* choose and perform one action as coroutine `me` (MAIN = scheduler in main). returns false to stop. */
static bool one_action(int me)
{
    struct sw s = { 0, 0, 0 };
    for (int tries = 0; tries < 40; tries++) {
        unsigned w = (unsigned)vr_below(&R, 100);
        int x = (int)vr_below(&R, (uint64_t)nco);
        if (w < 22 && x != me && st[x] != ST_RUNNING) { s.kind = 3; s.tgt = x; return do_switch(me, &s); }
        if (w < 55 && x != me && st[x] == ST_RUNNING) { s.kind = vr_chance(&R, 1, 2) ? 0 : 1; s.tgt = x; VR_CNT(s.kind ? "transfers" : "resumes"); return do_switch(me, &s); }
        if (w < 75 && me != MAIN && alive(caller_of[me])) { s.kind = 2; VR_CNT("yields"); return do_switch(me, &s); }
        if (w < 80 && me != MAIN) { s.kind = 1; s.tgt = MAIN; VR_CNT("transfers_to_main"); return do_switch(me, &s); }
        /* a transfer to oneself hands the message straight back (and, by the library's rule, makes the coroutine its own caller) */
        if (w >= 92 && w < 95) { s.kind = 1; s.tgt = me; VR_CNT("transfers_to_self"); return do_switch(me, &s); }
        if (w < 86 && x != me && st[x] == ST_RUNNING && kids[x] == 0) {
            uint64_t v = ++tokctr * 0x9e3779b97f4a7c15ull;
            cmi_coroutine_stop(co[x], (void *)v);
            st[x] = ST_FINISHED; if (parent_of[x] >= 0) kids[parent_of[x]]--;
            if (co[x]->status != CMI_COROUTINE_FINISHED || (uint64_t)(uintptr_t)cmi_coroutine_exit_value(co[x]) != v) { vr_violation("C03/stop-value", "stopped coroutine %d: status %d exit value %p expected %#" PRIx64, x, (int)co[x]->status, cmi_coroutine_exit_value(co[x]), v); return false; }
            VR_CNT("stops"); vr_fp_mix(0x55 + (uint64_t)x);
            return true;
        }
        if (w >= 86 && w < 92 && me != MAIN && kids[me] == 0 && alive(parent_of[me])) return false;   /* end this coroutine (return or exit) */
    }
    if (me != MAIN) { s.kind = 1; s.tgt = MAIN; return do_switch(me, &s); }
    return true;
}

/* recursion with canaries: each frame carries a 64-byte canary derived from (me, depth) */
static bool __attribute__((noinline)) act(int me, int depth)
{
    volatile uint64_t canary[8];
    for (int k = 0; k < 8; k++) canary[k] = vr_mix(((uint64_t)(me + 2) << 32) ^ ((uint64_t)depth << 8) ^ (uint64_t)k);
    bool go;
    if (depth > 0) go = act(me, depth - 1);
    else { VR_CNT("switch_sites"); go = one_action(me); }
    for (int k = 0; k < 8; k++) if (canary[k] != vr_mix(((uint64_t)(me + 2) << 32) ^ ((uint64_t)depth << 8) ^ (uint64_t)k)) {
        vr_violation("C03/stack-canary", "coroutine %d: stack frame at depth %d changed while it was suspended", me, depth); return false; }
    return go;
}

/* any size is a valid stack size: half of the coroutines get one that is not a multiple of 16 (or 8, or 2) */
static size_t pick_stack_size(void)
{
    size_t ss = 64 * 1024;
    if (vr_chance(&R, 1, 2)) { ss = 56 * 1024 + (size_t)vr_below(&R, 24 * 1024); if (vr_chance(&R, 1, 2)) ss = (ss & ~(size_t)15) + 8; }
    if (ss % 16) VR_CNT("stacks_with_size_not_multiple_of_16");
    return ss;
}

static void *body(struct cmi_coroutine *self, void *ctx)
{
    int me = (int)(intptr_t)ctx;
    /* first entry: (self, context), right target, aligned stack, documented initial MXCSR */
    if (self != co[me]) vr_violation("C03/entry-self", "coroutine %d started with self=%p expected %p", me, (void *)self, (void *)co[me]);
    if (cur != me || !expect_new || expect_tgt != me) vr_violation("C03/entry-target", "coroutine %d entered but the started one is %d", me, expect_tgt);
    if ((probe_entry_rsp & 15u) != 8u) vr_violation("C03/entry-alignment", "coroutine %d entered with RSP=%#" PRIx64 " (mod 16 = %u, ABI wants 8)", me, probe_entry_rsp, (unsigned)(probe_entry_rsp & 15u));
    if (probe_entry_mxcsr != 0x1d00u) vr_violation("C03/entry-mxcsr", "coroutine %d entered with MXCSR=%#x, documented initial value 0x1d00", me, probe_entry_mxcsr);
    VR_CNT("entries_checked");
    while (vr_nviol == 0 && budget > 0) {
        int depth = (int)vr_below(&R, 41);
        VR_MAX("max_depth_at_switch", depth);
        if (!act(me, depth)) break;
    }
    if (vr_nviol || budget <= 0 || kids[me] != 0 || !alive(parent_of[me])) {
        /* out of budget or cannot end validly: park in main for good */
        for (;;) { struct sw s = { 1, MAIN, 0 }; if (!do_switch(me, &s)) { /* keep handing control back */ } if (vr_nviol) { cur = MAIN; cmi_coroutine_transfer(cmi_coroutine_main(), NULL); } }
    }
    /* end: by return or by exit */
    uint64_t v = ++tokctr * 0x9e3779b97f4a7c15ull;
    exit_tok[me] = v; exited_pending = true; exited_who = me;
    st[me] = ST_FINISHED; if (parent_of[me] >= 0) { kids[parent_of[me]]--; caller_of[parent_of[me]] = me; /* the library's transfer makes the ended child the starter's caller */ }
    cur = parent_of[me]; budget--;
    vr_fp_mix(0x77 + (uint64_t)me);
    if (vr_chance(&R, 1, 2)) { VR_CNT("ends_by_return"); return (void *)v; }
    VR_CNT("ends_by_exit");
    cmi_coroutine_exit((void *)v);
    vr_violation("C03/exit-returned", "cmi_coroutine_exit returned in coroutine %d", me);
    return NULL;
}

static void case_api(void)
{
    nco = 2 + (int)vr_below(&R, MAXCO - 1);
    budget = 30 + (int)vr_below(&R, vr_chance(&R, 1, 10) ? 3000 : 300);
    probe_entry_target = (void *)body;
    for (int k = 0; k < nco; k++) {
        co[k] = cmi_coroutine_create();
        stack_size_of[k] = pick_stack_size();
        cmi_coroutine_initialize(co[k], probe_entry, (void *)(intptr_t)k, NULL, stack_size_of[k]);
        st[k] = ST_CREATED; caller_of[k] = MAIN; parent_of[k] = MAIN; kids[k] = 0; started[k] = 0;
    }
    cur = MAIN; exited_pending = false;
    vr_fp_mix((uint64_t)nco);
    while (vr_nviol == 0 && budget > 0) {
        int depth = (int)vr_below(&R, 12);
        if (!act(MAIN, depth)) break;
    }
    /* teardown: stop what is still running, then free */
    int running = 0;
    for (int k = 0; k < nco; k++) if (co[k]->status == CMI_COROUTINE_RUNNING) { running++; cmi_coroutine_stop(co[k], NULL); }
    if (vr_nviol == 0) for (int k = 0; k < nco; k++) { if (co[k]->status != (st[k] == ST_CREATED ? CMI_COROUTINE_CREATED : CMI_COROUTINE_FINISHED) && st[k] != ST_RUNNING) vr_violation("C03/status", "coroutine %d status %d, model %d", k, (int)co[k]->status, st[k]); }
    for (int k = 0; k < nco; k++) { cmi_coroutine_terminate(co[k]); cmi_coroutine_destroy(co[k]); }
    VR_ADD("coroutines", nco);
    vr_mark_nontrivial();
}

/* =========================================================== profile 1 === */
static struct cmi_coroutine *raw[MAXCO]; static int nraw;
static void *main_sp; static int rcur; static uint64_t rexp_tok; static int rexp_tgt; static bool rexp_new;
static uint64_t raw_exit_tok; static bool raw_exit_seen;
static void **sp_of(int id) { return id == MAIN ? &main_sp : (void **)&raw[id]->stack_pointer; }

static bool raw_switch(int me, int tgt, bool tgt_new)
{
    uint64_t in[6], out[6]; uint32_t mi = pat_mxcsr(), mo = 0;
    for (int k = 0; k < 6; k++) in[k] = pat64();
    uint64_t tok = ++tokctr * 0xd1342543de82ef95ull;
    rexp_tok = tok; rexp_tgt = tgt; rexp_new = tgt_new; rcur = tgt; budget--;
    vr_fp_mix((uint64_t)(tgt + 1) * 131 + (uint64_t)(me + 1));
    uint64_t idf = vr_chance(&R, 1, 2) ? 0x200000u : 0; probe_idflag_in = idf;
    uint64_t ret = probe_switch(sp_of(me), sp_of(tgt), (void *)tok, in, mi, out, &mo);
    { uint64_t fo = probe_flags_out; if ((fo & 0x200000u) != idf) { vr_violation("C03/flags", "mechanism level: context %d had RFLAGS.ID=%d before the switch and %d when it continued", me, idf != 0, (fo & 0x200000u) != 0); return false; } VR_CNT("flag_probes"); }
    if (rcur != me || rexp_tgt != me) { vr_violation("C03/wrong-continuation", "raw context %d continued, target was %d", me, rexp_tgt); return false; }
    if (!check_regs(in, out, mi, mo, "mechanism level (direct assembly switch)", me)) return false;
    if (raw_exit_seen && me == MAIN) { raw_exit_seen = false; if (ret != rexp_tok) { vr_violation("C03/message", "raw: main received %#" PRIx64 " expected %#" PRIx64, ret, rexp_tok); return false; } return true; }
    if (ret != rexp_tok) { vr_violation("C03/message", "raw context %d received %#" PRIx64 " from the switch, %#" PRIx64 " was sent", me, ret, rexp_tok); return false; }
    VR_CNT("messages_delivered");
    return true;
}
static bool __attribute__((noinline)) raw_act(int me, int depth, int tgt, bool tnew)
{
    volatile uint64_t canary[8];
    for (int k = 0; k < 8; k++) canary[k] = vr_mix(((uint64_t)(me + 2) << 40) ^ ((uint64_t)depth << 8) ^ (uint64_t)k);
    bool ok = depth > 0 ? raw_act(me, depth - 1, tgt, tnew) : raw_switch(me, tgt, tnew);
    for (int k = 0; k < 8; k++) if (canary[k] != vr_mix(((uint64_t)(me + 2) << 40) ^ ((uint64_t)depth << 8) ^ (uint64_t)k)) { vr_violation("C03/stack-canary", "raw context %d: frame at depth %d changed while suspended", me, depth); return false; }
    return ok;
}
static int raw_started[MAXCO], raw_done[MAXCO];
static void *raw_body(struct cmi_coroutine *self, void *ctx)
{
    int me = (int)(intptr_t)ctx;
    if (self != raw[me]) vr_violation("C03/entry-self", "raw context %d: self=%p expected %p", me, (void *)self, (void *)raw[me]);
    if (rcur != me || !rexp_new) vr_violation("C03/entry-target", "raw context %d entered unexpectedly", me);
    if ((probe_entry_rsp & 15u) != 8u) vr_violation("C03/entry-alignment", "raw context %d entered with RSP mod 16 = %u", me, (unsigned)(probe_entry_rsp & 15u));
    if (probe_entry_mxcsr != 0x1d00u) vr_violation("C03/entry-mxcsr", "raw context %d entered with MXCSR=%#x", me, probe_entry_mxcsr);
    VR_CNT("entries_checked");
    while (vr_nviol == 0 && budget > 0) {
        int tgt = (int)vr_below(&R, (uint64_t)nraw + 1) - 1;     /* -1 = main */
        if (tgt == me || (tgt >= 0 && raw_done[tgt])) continue;
        bool tnew = tgt >= 0 && !raw_started[tgt];
        if (tnew) raw_started[tgt] = 1;
        if (!raw_act(me, (int)vr_below(&R, 41), tgt, tnew)) break;
    }
    /* return: the trampoline must hand the value to the exit function on an ABI-aligned stack */
    raw_exit_tok = ++tokctr * 0xd1342543de82ef95ull;
    return (void *)raw_exit_tok;
}
static void raw_exit_func(void *retval)
{
    if ((uint64_t)(uintptr_t)retval != raw_exit_tok) vr_violation("C03/exit-value-delivery", "exit function received %p, the coroutine function returned %#" PRIx64, retval, raw_exit_tok);
    if ((probe_exit_rsp & 15u) != 8u) vr_violation("C03/exit-alignment", "exit function entered with RSP mod 16 = %u (ABI wants 8)", (unsigned)(probe_exit_rsp & 15u));
    VR_CNT("returns_through_trampoline");
    /* go back to main for good */
    void *dummy;
    if (rcur >= 0) raw_done[rcur] = 1;
    rcur = MAIN; rexp_tgt = MAIN; rexp_tok = 0x1234; raw_exit_seen = true;
    cmi_coroutine_context_switch(&dummy, &main_sp, (void *)(uintptr_t)0x1234);
    abort();
}
static void case_raw(void)
{
    nraw = 2 + (int)vr_below(&R, 10);
    budget = 30 + (int)vr_below(&R, 400);
    probe_entry_target = (void *)raw_body; probe_exit_target = (void *)raw_exit_func;
    for (int k = 0; k < nraw; k++) {
        raw[k] = cmi_coroutine_create();
        cmi_coroutine_initialize(raw[k], probe_entry, (void *)(intptr_t)k, probe_exit_entry, pick_stack_size());
        cmi_coroutine_context_init(raw[k]);
        raw_started[k] = 0; raw_done[k] = 0;
    }
    rcur = MAIN; raw_exit_seen = false;
    vr_fp_mix(0x1000 + (uint64_t)nraw);
    while (vr_nviol == 0 && budget > 0) {
        int tgt = (int)vr_below(&R, (uint64_t)nraw);
        if (raw_done[tgt]) { budget--; continue; }
        bool tnew = !raw_started[tgt]; if (tnew) raw_started[tgt] = 1;
        if (!raw_act(MAIN, (int)vr_below(&R, 10), tgt, tnew)) break;
    }
    /* let one started context run to its return (budget is exhausted so its loop ends at once) */
    if (vr_nviol == 0) for (int k = 0; k < nraw; k++) if (raw_started[k] && !raw_done[k]) { budget = 0; raw_act(MAIN, 0, k, false); break; }
    for (int k = 0; k < nraw; k++) { cmi_coroutine_terminate(raw[k]); cmi_coroutine_destroy(raw[k]); }
    VR_ADD("coroutines", nraw);
    vr_mark_nontrivial();
}

void vr_case(uint64_t seed, uint64_t idx, int profile)
{
    cmb_logger_flags_off(CMB_LOGGER_INFO | CMB_LOGGER_WARNING);
    R = vr_rng_make(seed, idx, 0xC03 + (uint64_t)profile);
    vr_fp_mix((uint64_t)profile);
    if (profile == 0) case_api(); else case_raw();
    if (idx % 127 == 0) vr_sample("profile %d (%s): %d coroutines, random scheduler; every switching call probed with fresh 64-bit patterns in rbx,rbp,r12-r15 and an MXCSR pattern (rounding mode, FTZ/DAZ, masks, flags); canary frames at depth 0-40", profile, profile ? "direct assembly switch" : "cmi_coroutine API", profile ? nraw : nco);
}

int main(int argc, char **argv) { return vr_main(argc, argv); }
