/*
 * vr.h - tiny case runner shared by all harness engines.
 *
 * An engine defines   void vr_case(uint64_t seed, uint64_t idx, int profile);
 * and calls vr_main(argc, argv).  For every case index in [--from, --to) the
 * runner forks a child, runs vr_case in it, and collects over a pipe:
 *     C <name> <n>      counter increments           (VR_CNT / vr_cnt)
 *     F <hex> <0|1>     case fingerprint, non-trivial flag
 *     S <text>          a written-out sample of the case
 *     V <key> | detail  a violation found by a monitor
 *     I <text>          inconclusive (budget exhausted etc.)
 * The child's stderr is captured too; abnormal ends (signals, library asserts,
 * sanitizer reports) are turned into violation keys by the parent.
 * One JSON object per run is printed on stdout for bin/check to merge.
 */
#ifndef VR_H
#define VR_H
#define _GNU_SOURCE
#include <stdio.h>
#include <stdlib.h>
#include <string.h>
#include <stdint.h>
#include <stdarg.h>
#include <stdbool.h>
#include <inttypes.h>
#include <unistd.h>
#include <signal.h>
#include <errno.h>
#include <time.h>
#include <sys/wait.h>
#include <sys/types.h>
#include <fcntl.h>
#include <poll.h>
#include <sys/personality.h>

/* ---------------------------------------------------------------- PRNG --- */
/* splitmix64: the harness's own generator, independent of the library's.    */
typedef struct { uint64_t s; } vr_rng;
static inline uint64_t vr_mix(uint64_t z)
{
    z += 0x9e3779b97f4a7c15ull;
    z = (z ^ (z >> 30)) * 0xbf58476d1ce4e5b9ull;
    z = (z ^ (z >> 27)) * 0x94d049bb133111ebull;
    return z ^ (z >> 31);
}
static inline uint64_t vr_next(vr_rng *r)
{
    r->s += 0x9e3779b97f4a7c15ull;
    uint64_t z = r->s;
    z = (z ^ (z >> 30)) * 0xbf58476d1ce4e5b9ull;
    z = (z ^ (z >> 27)) * 0x94d049bb133111ebull;
    return z ^ (z >> 31);
}
static inline vr_rng vr_rng_make(uint64_t seed, uint64_t idx, uint64_t stream)
{
    vr_rng r; r.s = vr_mix(vr_mix(seed) ^ vr_mix(idx * 0x632be59bd9b4e019ull + stream));
    return r;
}
/* uniform in [0,n) ; n>0 */
static inline uint64_t vr_below(vr_rng *r, uint64_t n) { return vr_next(r) % n; }
static inline int vr_range(vr_rng *r, int lo, int hi) { return lo + (int)vr_below(r, (uint64_t)(hi - lo + 1)); }
static inline bool vr_chance(vr_rng *r, unsigned num, unsigned den) { return vr_below(r, den) < num; }
/* uniform double in [0,1) using integer-to-double conversion only */
static inline double vr_unit(vr_rng *r) { return (double)(vr_next(r) >> 11) * (1.0 / 9007199254740992.0); }

/* ------------------------------------------------------- child -> parent --- */
static int vr_out_fd = -1;          /* pipe to parent (or stdout in --nofork)   */
static int vr_verbose = 0;
static uint64_t vr_cur_seed, vr_cur_idx;
static int vr_nviol = 0;
static uint64_t vr_fp = 0xcbf29ce484222325ull;   /* running fingerprint (FNV-1a) */
static int vr_nontrivial = 0;

static void vr_emit(const char *fmt, ...)
{
    char buf[2048];
    va_list ap; va_start(ap, fmt);
    int n = vsnprintf(buf, sizeof buf - 1, fmt, ap);
    va_end(ap);
    if (n < 0) return;
    if (n > (int)sizeof buf - 2) n = (int)sizeof buf - 2;
    for (int i = 0; i < n; i++) if (buf[i] == '\n') buf[i] = ' ';
    buf[n++] = '\n';
    int fd = vr_out_fd >= 0 ? vr_out_fd : 1;
    ssize_t w = write(fd, buf, (size_t)n); (void)w;
}

#define VR_MAXCNT 256
static const char *vr_cnt_name[VR_MAXCNT];
static uint64_t vr_cnt_val[VR_MAXCNT];
static int vr_ncnt = 0;
static int vr_cnt_register(const char *name)
{
    for (int i = 0; i < vr_ncnt; i++) if (strcmp(vr_cnt_name[i], name) == 0) return i;
    if (vr_ncnt >= VR_MAXCNT) return VR_MAXCNT - 1;
    vr_cnt_name[vr_ncnt] = name; vr_cnt_val[vr_ncnt] = 0;
    return vr_ncnt++;
}
/* name must be a string literal (or otherwise outlive the case) */
#define VR_CNT(name) do { static int _vi = -1; if (_vi < 0) _vi = vr_cnt_register(name); vr_cnt_val[_vi]++; } while (0)
#define VR_ADD(name, n) do { static int _vi = -1; if (_vi < 0) _vi = vr_cnt_register(name); vr_cnt_val[_vi] += (uint64_t)(n); } while (0)
#define VR_MAX(name, n) do { static int _vi = -1; if (_vi < 0) _vi = vr_cnt_register(name); if ((uint64_t)(n) > vr_cnt_val[_vi]) vr_cnt_val[_vi] = (uint64_t)(n); } while (0)
/* name may be a temporary string: it is copied on first use */
static inline void vr_cnt_dyn(const char *name, uint64_t n)
{
    for (int i = 0; i < vr_ncnt; i++) if (strcmp(vr_cnt_name[i], name) == 0) { vr_cnt_val[i] += n; return; }
    int i = vr_cnt_register(strdup(name)); vr_cnt_val[i] += n;
}

static inline void vr_fp_mix(uint64_t v)
{
    for (int i = 0; i < 8; i++) { vr_fp ^= (v >> (8 * i)) & 0xff; vr_fp *= 0x100000001b3ull; }
}
static inline void vr_mark_nontrivial(void) { vr_nontrivial = 1; }

/* report a violation; key has no spaces or '|' */
static void vr_violation(const char *key, const char *fmt, ...)
{
    char buf[1500];
    va_list ap; va_start(ap, fmt);
    vsnprintf(buf, sizeof buf, fmt, ap);
    va_end(ap);
    vr_nviol++;
    if (vr_nviol <= 8) vr_emit("V %s | seed=%" PRIu64 " case=%" PRIu64 " %s", key, vr_cur_seed, vr_cur_idx, buf);
}
static void vr_inconclusive(const char *fmt, ...)
{
    char buf[600];
    va_list ap; va_start(ap, fmt);
    vsnprintf(buf, sizeof buf, fmt, ap);
    va_end(ap);
    vr_emit("I seed=%" PRIu64 " case=%" PRIu64 " %s", vr_cur_seed, vr_cur_idx, buf);
}
static void vr_sample(const char *fmt, ...)
{
    char buf[1900];
    va_list ap; va_start(ap, fmt);
    vsnprintf(buf, sizeof buf, fmt, ap);
    va_end(ap);
    vr_emit("S case=%" PRIu64 " %s", vr_cur_idx, buf);
}
#define VR_LOG(...) do { if (vr_verbose) { fprintf(stderr, __VA_ARGS__); fputc('\n', stderr); } } while (0)

static void vr_flush_case(void)
{
    for (int i = 0; i < vr_ncnt; i++)
        if (vr_cnt_val[i]) vr_emit("C %s %" PRIu64, vr_cnt_name[i], vr_cnt_val[i]);
    vr_emit("F %016" PRIx64 " %d", vr_fp, vr_nontrivial);
}

/* engine supplies this */
void vr_case(uint64_t seed, uint64_t idx, int profile);

/* ------------------------------------------------------------ the parent --- */
struct vr_agg { char name[64]; uint64_t val; int ismax; };
static struct vr_agg vr_agg[VR_MAXCNT]; static int vr_nagg = 0;
static void vr_agg_add(const char *name, uint64_t v)
{
    int ismax = (strncmp(name, "max_", 4) == 0);
    for (int i = 0; i < vr_nagg; i++) if (strcmp(vr_agg[i].name, name) == 0) {
        if (ismax) { if (v > vr_agg[i].val) vr_agg[i].val = v; } else vr_agg[i].val += v;
        return;
    }
    if (vr_nagg < VR_MAXCNT) { snprintf(vr_agg[vr_nagg].name, 64, "%s", name); vr_agg[vr_nagg].val = v; vr_agg[vr_nagg].ismax = ismax; vr_nagg++; }
}

static void vr_json_str(FILE *f, const char *s)
{
    fputc('"', f);
    for (; *s; s++) {
        unsigned char c = (unsigned char)*s;
        if (c == '"' || c == '\\') { fputc('\\', f); fputc(c, f); }
        else if (c < 0x20 || c > 0x7e) fprintf(f, "\\u%04x", c);
        else fputc(c, f);
    }
    fputc('"', f);
}

/* derive a violation key from captured stderr / wait status */
static void vr_abnormal_key(int status, int timed_out, const char *err, char *key, size_t ksz, char *detail, size_t dsz)
{
    const char *p;
    detail[0] = 0;
    if (timed_out) { snprintf(key, ksz, "timeout"); return; }
    if ((p = strstr(err, "Assert \"")) != NULL) {
        /* cimba assert:  ... <func> (<line>): Assert "<cond>" failed, source file <f> */
        char cond[200] = "", file[100] = "", func[100] = "";
        sscanf(p, "Assert \"%199[^\"]\" failed, source file %99s", cond, file);
        /* walk back to find func name: preceded by whitespace, followed by " (" */
        const char *q = p;
        while (q > err && *(q - 1) != '\n') q--;
        /* take the last token of form name (NNN): before Assert */
        const char *best = NULL; const char *s = q;
        while (s < p) { if (*s == '(' && s > q + 1) best = s; s++; }
        if (best) { const char *e = best; while (e > q && *(e - 1) == ' ') e--; const char *b = e; while (b > q && *(b - 1) != ' ' && *(b - 1) != '\t') b--; size_t n = (size_t)(e - b); if (n > 99) n = 99; memcpy(func, b, n); func[n] = 0; }
        for (char *c = cond; *c; c++) if (*c == ' ' || *c == '|') *c = '_';
        snprintf(key, ksz, "abort:%s:%s:%s", file, func, cond);
        snprintf(detail, dsz, "library assert fired");
        return;
    }
    if ((p = strstr(err, "ERROR: AddressSanitizer:")) != NULL) {
        char kind[80] = "", fn[120] = "";
        sscanf(p, "ERROR: AddressSanitizer: %79s", kind);
        /* first frame inside libcimba / harness: "#0 0x... in func file:line" ; pick first "in cm" frame */
        const char *f = p;
        while ((f = strstr(f, " in ")) != NULL) {
            f += 4;
            if (strncmp(f, "cm", 2) == 0 || strncmp(f, "hash", 4) == 0 || strncmp(f, "heap_", 5) == 0 || strncmp(f, "wake", 4) == 0 || strncmp(f, "timeseries", 10) == 0 || strncmp(f, "cimba", 5) == 0) { sscanf(f, "%119[A-Za-z0-9_]", fn); break; }
        }
        snprintf(key, ksz, "asan:%s:%s", kind, fn[0] ? fn : "unknown");
        return;
    }
    if ((p = strstr(err, "runtime error:")) != NULL) {
        /* UBSan: file:line:col: runtime error: text */
        const char *q = p; while (q > err && *(q - 1) != '\n') q--;
        char loc[160] = ""; size_t n = (size_t)(p - q); if (n > 159) n = 159; memcpy(loc, q, n); loc[n] = 0;
        char *sl = strrchr(loc, '/'); const char *l = sl ? sl + 1 : loc;
        char l2[160]; snprintf(l2, sizeof l2, "%s", l);
        /* strip column and trailing ": " */
        char *c1 = strchr(l2, ':'); if (c1) { char *c2 = strchr(c1 + 1, ':'); if (c2) *c2 = 0; }
        snprintf(key, ksz, "ubsan:%s", l2);
        snprintf(detail, dsz, "%.200s", p);
        for (char *c = detail; *c; c++) if (*c == '\n') { *c = 0; break; }
        return;
    }
    if ((p = strstr(err, "== Invalid ")) != NULL || (p = strstr(err, "uninitialised value")) != NULL || (p = strstr(err, "== Conditional jump")) != NULL) {
        /* valgrind memcheck */
        char what[60] = ""; sscanf(p[0] == '=' ? p + 3 : p, "%59[A-Za-z ]", what);
        for (char *c = what; *c; c++) if (*c == ' ') *c = '_';
        char fn[100] = ""; const char *f = strstr(p, "by 0x"); const char *a = strstr(p, "at 0x"); const char *g = a ? a : f;
        if (g) { const char *col = strstr(g, ": "); if (col) sscanf(col + 2, "%99[A-Za-z0-9_]", fn); }
        snprintf(key, ksz, "memcheck:%s:%s", what, fn);
        return;
    }
    if ((p = strstr(err, "WARNING: ThreadSanitizer:")) != NULL) {
        char kind[80] = ""; sscanf(p, "WARNING: ThreadSanitizer: %79[^(\n]", kind);
        for (char *c = kind; *c; c++) if (*c == ' ') *c = '_';
        snprintf(key, ksz, "tsan:%s", kind);
        return;
    }
    if (WIFSIGNALED(status)) {
        int sg = WTERMSIG(status);
        const char *nm = sg == SIGSEGV ? "SIGSEGV" : sg == SIGBUS ? "SIGBUS" : sg == SIGFPE ? "SIGFPE" : sg == SIGABRT ? "SIGABRT" : sg == SIGILL ? "SIGILL" : sg == SIGKILL ? "SIGKILL" : "SIG";
        snprintf(key, ksz, "crash:%s", nm);
        if (strcmp(nm, "SIG") == 0) snprintf(key, ksz, "crash:SIG%d", sg);
        return;
    }
    snprintf(key, ksz, "exit:%d", WIFEXITED(status) ? WEXITSTATUS(status) : -1);
}

static int vr_main(int argc, char **argv)
{
    /* replay determinism: run without address-space randomisation (the library has address-keyed hash maps) */
    if (!getenv("VR_NO_REEXEC")) {
        int pers = personality(0xffffffff);
        if (pers != -1 && !(pers & ADDR_NO_RANDOMIZE) && personality(pers | ADDR_NO_RANDOMIZE) != -1) { setenv("VR_NO_REEXEC", "1", 1); execv("/proc/self/exe", argv); }
    }
    uint64_t seed = 1, from = 0, to = 1; int profile = 0, nofork = 0; int timeout_s = 60;
    int keep_fp = 1, hang_is_violation = 0;
    for (int i = 1; i < argc; i++) {
        if (!strcmp(argv[i], "--seed") && i + 1 < argc) seed = strtoull(argv[++i], NULL, 0);
        else if (!strcmp(argv[i], "--from") && i + 1 < argc) from = strtoull(argv[++i], NULL, 0);
        else if (!strcmp(argv[i], "--to") && i + 1 < argc) to = strtoull(argv[++i], NULL, 0);
        else if (!strcmp(argv[i], "--profile") && i + 1 < argc) profile = atoi(argv[++i]);
        else if (!strcmp(argv[i], "--timeout") && i + 1 < argc) timeout_s = atoi(argv[++i]);
        else if (!strcmp(argv[i], "--nofork")) nofork = 1;
        else if (!strcmp(argv[i], "--verbose")) vr_verbose = 1;
        else if (!strcmp(argv[i], "--nofp")) keep_fp = 0;
        else if (!strcmp(argv[i], "--hang-violation")) hang_is_violation = 1;
        else { fprintf(stderr, "unknown arg %s\n", argv[i]); return 2; }
    }
    if (nofork) {
        for (uint64_t idx = from; idx < to; idx++) {
            vr_cur_seed = seed; vr_cur_idx = idx; vr_ncnt = 0; vr_fp = 0xcbf29ce484222325ull; vr_nontrivial = 0;
            vr_case(seed, idx, profile);
            vr_flush_case();
        }
        return vr_nviol ? 1 : 0;
    }

    uint64_t ncases = 0, nviol_cases = 0, ninconc = 0, nabnormal = 0;
    size_t fpcap = keep_fp ? (size_t)(to - from) : 0, nfp = 0;
    uint64_t *fps = fpcap ? malloc(fpcap * sizeof *fps) : NULL; unsigned char *fpnt = fpcap ? malloc(fpcap) : NULL;
    uint64_t nontriv = 0;
    char *samples[3] = {0}; int nsamples = 0;
    /* violations: keep up to 200 distinct (key) with first detail, count */
    struct { char key[200]; char detail[1200]; uint64_t count; uint64_t idx; } *viol = calloc(200, sizeof *viol); int nvk = 0;
    char *inconc_first = NULL;

    for (uint64_t idx = from; idx < to; idx++) {
        int attempt = 0;
retry:;
        int po[2], pe[2];
        if (pipe(po) || pipe(pe)) { perror("pipe"); return 2; }
        fflush(NULL);
        pid_t pid = fork();
        if (pid < 0) { perror("fork"); return 2; }
        if (pid == 0) {
            close(po[0]); close(pe[0]);
            dup2(pe[1], 2); close(pe[1]);
            int dn = open("/dev/null", O_WRONLY); if (dn >= 0) { dup2(dn, 1); close(dn); }
            vr_out_fd = po[1];
            vr_cur_seed = seed; vr_cur_idx = idx;
            vr_case(seed, idx, profile);
            vr_flush_case();
            _exit(0);
        }
        close(po[1]); close(pe[1]);
        /* read both pipes until EOF, with a watchdog */
        size_t ocap = 1 << 16, olen = 0, ecap = 1 << 14, elen = 0;
        char *obuf = malloc(ocap), *ebuf = malloc(ecap);
        struct pollfd pf[2] = { { po[0], POLLIN, 0 }, { pe[0], POLLIN, 0 } };
        int open_fds = 2, timed_out = 0;
        time_t t0 = time(NULL);
        while (open_fds > 0) {
            int pr = poll(pf, 2, 1000);
            if (pr < 0 && errno != EINTR) break;
            if (time(NULL) - t0 > timeout_s) { timed_out = 1; kill(pid, SIGKILL); break; }
            for (int k = 0; k < 2; k++) {
                if (pf[k].fd < 0) continue;
                if (pf[k].revents & (POLLIN | POLLHUP | POLLERR)) {
                    char tmp[8192];
                    ssize_t n = read(pf[k].fd, tmp, sizeof tmp);
                    if (n <= 0) { close(pf[k].fd); pf[k].fd = -1; open_fds--; continue; }
                    if (k == 0) { if (olen + (size_t)n + 1 > ocap) { while (olen + (size_t)n + 1 > ocap) ocap *= 2; obuf = realloc(obuf, ocap); } memcpy(obuf + olen, tmp, (size_t)n); olen += (size_t)n; }
                    else { if (elen + (size_t)n + 1 <= (1u << 20)) { if (elen + (size_t)n + 1 > ecap) { while (elen + (size_t)n + 1 > ecap) ecap *= 2; ebuf = realloc(ebuf, ecap); } memcpy(ebuf + elen, tmp, (size_t)n); elen += (size_t)n; } }
                }
            }
        }
        for (int k = 0; k < 2; k++) if (pf[k].fd >= 0) close(pf[k].fd);
        obuf[olen] = 0; ebuf[elen] = 0;
        int status = 0; waitpid(pid, &status, 0);
        if (timed_out && attempt == 0) { attempt = 1; free(obuf); free(ebuf); goto retry; }

        ncases++;
        int case_viol = 0, case_inconc = 0;
        int finished = 0;
        /* parse child output */
        char *save = NULL;
        for (char *ln = strtok_r(obuf, "\n", &save); ln; ln = strtok_r(NULL, "\n", &save)) {
            if (ln[0] == 'C' && ln[1] == ' ') { char nm[64]; uint64_t v; if (sscanf(ln + 2, "%63s %" SCNu64, nm, &v) == 2) vr_agg_add(nm, v); }
            else if (ln[0] == 'F' && ln[1] == ' ') { uint64_t h; int nt; if (sscanf(ln + 2, "%" SCNx64 " %d", &h, &nt) == 2) { finished = 1; if (nfp < fpcap) { fps[nfp] = h; fpnt[nfp] = (unsigned char)nt; nfp++; } if (nt) nontriv++; } }
            else if (ln[0] == 'S' && ln[1] == ' ') { if (nsamples < 3) samples[nsamples++] = strdup(ln + 2); }
            else if (ln[0] == 'I' && ln[1] == ' ') { case_inconc = 1; if (!inconc_first) inconc_first = strdup(ln + 2); }
            else if (ln[0] == 'V' && ln[1] == ' ') {
                case_viol = 1;
                char *bar = strstr(ln + 2, " | "); const char *det = "";
                if (bar) { *bar = 0; det = bar + 3; }
                int k; for (k = 0; k < nvk; k++) if (strcmp(viol[k].key, ln + 2) == 0) break;
                if (k == nvk && nvk < 200) { snprintf(viol[k].key, sizeof viol[k].key, "%s", ln + 2); snprintf(viol[k].detail, sizeof viol[k].detail, "%s", det); viol[k].idx = idx; nvk++; }
                if (k < nvk) viol[k].count++;
            }
        }
        int abnormal = timed_out || !WIFEXITED(status) || WEXITSTATUS(status) != 0 || !finished
                       || strstr(ebuf, "ERROR: AddressSanitizer") || strstr(ebuf, "runtime error:") || strstr(ebuf, "WARNING: ThreadSanitizer")
                       || strstr(ebuf, "== Invalid ") || strstr(ebuf, "uninitialised value") || strstr(ebuf, "== Conditional jump");
        if (abnormal) {
            char key[300], detail[400];
            vr_abnormal_key(status, timed_out, ebuf, key, sizeof key, detail, sizeof detail);
            if (timed_out && hang_is_violation) {
                nabnormal++; case_viol = 1;
                int k; for (k = 0; k < nvk; k++) if (strcmp(viol[k].key, "hang") == 0) break;
                if (k == nvk && nvk < 200) { snprintf(viol[k].key, sizeof viol[k].key, "hang"); snprintf(viol[k].detail, sizeof viol[k].detail, "seed=%" PRIu64 " case=%" PRIu64 " did not finish within %d s (twice)", seed, idx, timeout_s); viol[k].idx = idx; nvk++; }
                if (k < nvk) viol[k].count++;
            }
            else if (timed_out) { case_inconc = 1; if (!inconc_first) { char b[200]; snprintf(b, sizeof b, "seed=%" PRIu64 " case=%" PRIu64 " watchdog %ds expired twice", seed, idx, timeout_s); inconc_first = strdup(b); } }
            else {
                nabnormal++; case_viol = 1;
                int k; for (k = 0; k < nvk; k++) if (strcmp(viol[k].key, key) == 0) break;
                if (k == nvk && nvk < 200) {
                    snprintf(viol[k].key, sizeof viol[k].key, "%s", key);
                    /* keep the tail of stderr as detail */
                    const char *tail = elen > 700 ? ebuf + elen - 700 : ebuf;
                    snprintf(viol[k].detail, sizeof viol[k].detail, "seed=%" PRIu64 " case=%" PRIu64 " %s :: %s", seed, idx, detail, tail);
                    viol[k].idx = idx; nvk++;
                }
                if (k < nvk) viol[k].count++;
            }
        }
        if (case_viol) nviol_cases++;
        if (case_inconc) ninconc++;
        free(obuf); free(ebuf);
    }

    /* JSON summary */
    FILE *f = stdout;
    fprintf(f, "{\"seed\":%" PRIu64 ",\"from\":%" PRIu64 ",\"to\":%" PRIu64 ",\"profile\":%d,\"cases\":%" PRIu64 ",\"violating_cases\":%" PRIu64 ",\"abnormal\":%" PRIu64 ",\"inconclusive\":%" PRIu64 ",\"nontrivial\":%" PRIu64 ",",
            seed, from, to, profile, ncases, nviol_cases, nabnormal, ninconc, nontriv);
    fprintf(f, "\"counters\":{");
    for (int i = 0; i < vr_nagg; i++) { if (i) fputc(',', f); vr_json_str(f, vr_agg[i].name); fprintf(f, ":%" PRIu64, vr_agg[i].val); }
    fprintf(f, "},\"violations\":[");
    for (int k = 0; k < nvk; k++) { if (k) fputc(',', f); fprintf(f, "{\"key\":"); vr_json_str(f, viol[k].key); fprintf(f, ",\"count\":%" PRIu64 ",\"case\":%" PRIu64 ",\"detail\":", viol[k].count, viol[k].idx); vr_json_str(f, viol[k].detail); fputc('}', f); }
    fprintf(f, "],\"samples\":[");
    for (int i = 0; i < nsamples; i++) { if (i) fputc(',', f); vr_json_str(f, samples[i]); }
    fprintf(f, "],\"inconclusive_first\":"); vr_json_str(f, inconc_first ? inconc_first : "");
    fprintf(f, ",\"fingerprints\":[");
    for (size_t i = 0; i < nfp; i++) { if (i) fputc(',', f); fprintf(f, "\"%s%016" PRIx64 "\"", fpnt[i] ? "+" : "-", fps[i]); }
    fprintf(f, "]}\n");
    fflush(f);
    return 0;
}
#endif
