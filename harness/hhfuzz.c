/*
 * hhfuzz - operation-history differential of cmi_hashheap_* against a flat
 * reference (array + linear scans) plus a structural walker.   Property C02.
 *
 * profile 0..4 : comparator kind (event, waiting list, holders, object
 *                priority, default); the comparator *function* is harvested
 *                from a live library object so the real ordering code runs.
 * profile 10+k : same, "churn" shape (long remove/insert to pile up tombstones)
 */
#include "vr.h"
#include "cimba.h"
#include "cmb_priorityqueue.h"
#include "cmi_hashheap.h"

extern struct cmi_hashheap *cmi_verif_event_queue(void);

enum { K_EVENT, K_WAIT, K_HOLD, K_OBJP, K_DEFAULT, K_N };
static const char *kind_name[] = { "event", "waitlist", "holders", "objprio", "default" };

struct ent { uint64_t key; void *item[4]; double d; int64_t i; };
static struct ent *M; static size_t mn, mcap;
static uint64_t *dead; static size_t ndead, deadcap;       /* removed / dequeued keys */
static int kind;
static struct cmi_hashheap *hp;

/* the specified order: <0 a first, >0 b first, 0 = tie left open by the spec */
static int spec_cmp(const struct ent *a, const struct ent *b)
{
    switch (kind) {
    case K_EVENT:
        if (a->d < b->d) return -1; if (a->d > b->d) return 1;
        if (a->i > b->i) return -1; if (a->i < b->i) return 1;
        return a->key < b->key ? -1 : (a->key > b->key ? 1 : 0);
    case K_WAIT:      /* priority desc, entry time asc, then arrival number (4th payload word) asc */
        if (a->i > b->i) return -1; if (a->i < b->i) return 1;
        if (a->d < b->d) return -1; if (a->d > b->d) return 1;
        return (uintptr_t)a->item[3] < (uintptr_t)b->item[3] ? -1 : ((uintptr_t)a->item[3] > (uintptr_t)b->item[3] ? 1 : 0);
    case K_HOLD:      /* priority asc, then latest holder first (3rd payload word desc) */
        if (a->i < b->i) return -1; if (a->i > b->i) return 1;
        return (uintptr_t)a->item[2] > (uintptr_t)b->item[2] ? -1 : ((uintptr_t)a->item[2] < (uintptr_t)b->item[2] ? 1 : 0);
    case K_OBJP:
        if (a->i > b->i) return -1; if (a->i < b->i) return 1;
        return a->key < b->key ? -1 : (a->key > b->key ? 1 : 0);
    default:
        if (a->d < b->d) return -1; if (a->d > b->d) return 1;
        return 0;
    }
}

static long m_find(uint64_t key) { for (size_t k = 0; k < mn; k++) if (M[k].key == key) return (long)k; return -1; }
static void m_add(struct ent e) { if (mn == mcap) { mcap = mcap ? mcap * 2 : 64; M = realloc(M, mcap * sizeof *M); } M[mn++] = e; }
static void m_del(size_t k) { if (ndead == deadcap) { deadcap = deadcap ? deadcap * 2 : 64; dead = realloc(dead, deadcap * sizeof *dead); } dead[ndead++] = M[k].key; M[k] = M[mn - 1]; mn--; }
/* is entry k a minimum under the spec? */
static bool m_is_min(size_t k) { for (size_t j = 0; j < mn; j++) if (j != k && spec_cmp(&M[j], &M[k]) < 0) return false; return true; }
static bool pat_match(const struct ent *e, void *const v[4])
{
    for (int q = 0; q < 4; q++) if (v[q] != CMI_ANY_ITEM && v[q] != e->item[q]) return false;
    return true;
}

static char opsig[64]; static int nops_done;
static char optrace[400]; static size_t optlen;
#define BAD(key, ...) do { vr_violation(key, __VA_ARGS__); } while (0)

/* structural walker over the public struct fields */
static bool walk(const char *after)
{
    if (hp->heap_count != mn) { BAD("C02/count", "after %s: heap_count=%" PRIu64 " model=%zu (%s)", after, hp->heap_count, mn, kind_name[kind]); return false; }
    if (hp->heap_size != (1ull << hp->heap_exp_cur) || hp->hash_size != 2 * hp->heap_size) { BAD("C02/sizes", "after %s: heap_size=%" PRIu64 " hash_size=%" PRIu64 " exp=%u", after, hp->heap_size, hp->hash_size, hp->heap_exp_cur); return false; }
    if (hp->heap_count > hp->heap_size) { BAD("C02/overfull", "after %s", after); return false; }
    for (uint64_t i = 1; i <= hp->heap_count; i++) {
        const struct cmi_heap_tag *t = &hp->heap[i];
        long k = m_find(t->key);
        if (k < 0) { BAD("C02/ghost-key", "after %s: heap[%" PRIu64 "].key=%" PRIu64 " not live in model (%s)", after, i, t->key, kind_name[kind]); return false; }
        const struct ent *e = &M[k];
        if (t->item[0] != e->item[0] || t->item[1] != e->item[1] || t->item[2] != e->item[2] || t->item[3] != e->item[3]
            || memcmp(&t->dsortkey, &e->d, sizeof(double)) != 0 || t->isortkey != e->i) {
            BAD("C02/payload-detached", "after %s: key %" PRIu64 " at heap[%" PRIu64 "] carries foreign payload/sort keys (%s)", after, t->key, i, kind_name[kind]); return false; }
        if (t->hash_index >= hp->hash_size || hp->hash_map[t->hash_index].key != t->key || hp->hash_map[t->hash_index].heap_index != i) {
            BAD("C02/backpointer", "after %s: heap[%" PRIu64 "] key %" PRIu64 " hash_index %" PRIu64 " does not point back (%s)", after, i, t->key, t->hash_index, kind_name[kind]); return false; }
        if (cmi_hash_find_index(hp, t->key) != i) { BAD("C02/unreachable", "after %s: live key %" PRIu64 " not found by probing (%s)", after, t->key, kind_name[kind]); return false; }
        if (i >= 2) {
            const struct cmi_heap_tag *p = &hp->heap[i / 2];
            long kp = m_find(p->key);
            if (kp >= 0 && spec_cmp(e, &M[kp]) < 0) { BAD("C02/heap-order", "after %s: child heap[%" PRIu64 "] precedes its parent under the specified %s order", after, i, kind_name[kind]); return false; }
        }
    }
    /* live hash slots == heap_count, no duplicates */
    uint64_t live = 0;
    for (uint64_t s = 0; s < hp->hash_size; s++) {
        if (hp->hash_map[s].heap_index != 0) {
            live++;
            uint64_t hi = hp->hash_map[s].heap_index;
            if (hi > hp->heap_count || hp->heap[hi].hash_index != s) { BAD("C02/stale-hash-slot", "after %s: slot %" PRIu64 " claims heap index %" PRIu64, after, s, hi); return false; }
        }
    }
    if (live != hp->heap_count) { BAD("C02/live-slots", "after %s: %" PRIu64 " live hash slots for %" PRIu64 " heap entries", after, live, hp->heap_count); return false; }
    return true;
}

static uint64_t fib_inv;     /* inverse of the Fibonacci multiplier mod 2^64 */
static uint64_t colliding_key(vr_rng *r, uint64_t like)
{
    /* a key landing in the same initial hash bucket as `like` at the current exponent */
    unsigned bits = hp->heap_exp_cur + 1u;
    uint64_t h = (like * UINT64_C(11400714819323198485)) >> (64u - bits);
    uint64_t low = vr_next(r) & ((UINT64_C(1) << (64u - bits)) - 1u);
    return ((h << (64u - bits)) | low) * fib_inv;
}

static double pick_d(vr_rng *r)
{
    static const double lat[] = { 0.0, 0.0, 1.0, 1.0, 2.0, 3.25, -1.0, -0.0, 1e-300, 1e300, -1e300, 5.0, 5.0 };
    if (vr_chance(r, 1, 8)) return (double)(int64_t)vr_below(r, 1000) * 0.125;
    return lat[vr_below(r, sizeof lat / sizeof lat[0])];
}
static int64_t pick_i(vr_rng *r)
{
    static const int64_t lat[] = { 0, 0, 0, 1, 1, -1, 5, INT64_MIN, INT64_MAX, INT64_MAX - 1, INT64_MIN + 1, 2 };
    if (vr_chance(r, 1, 10)) return (int64_t)vr_next(r);
    return lat[vr_below(r, sizeof lat / sizeof lat[0])];
}

static void *alpha[3] = { (void *)0x1000, (void *)0x2000, NULL };
static void *stored_alpha[4] = { (void *)0x1000, (void *)0x2000, NULL, (void *)(uintptr_t)UINT64_MAX };   /* a stored all-ones word (e.g. the signal -1) is data, not a wildcard */

void vr_case(uint64_t seed, uint64_t idx, int profile)
{
    cmb_logger_flags_off(CMB_LOGGER_INFO | CMB_LOGGER_WARNING);
    vr_rng r = vr_rng_make(seed, idx, 0xC02);
    int churn = profile >= 10;
    kind = profile % 10;
    if (kind >= K_N) kind = (int)vr_below(&r, K_N);
    /* compute inverse of the multiplier (Newton) */
    { uint64_t a = UINT64_C(11400714819323198485), x = a; for (int k = 0; k < 6; k++) x *= 2 - a * x; fib_inv = x; }

    /* harvest the real comparator */
    cmi_heap_compare_func *cmp = NULL;
    struct cmb_resource *res = NULL; struct cmb_resourcepool *pool = NULL; struct cmb_priorityqueue *pq = NULL;
    switch (kind) {
    case K_EVENT: cmb_event_queue_initialize(0.0); cmp = cmi_verif_event_queue()->heap_compare; break;
    case K_WAIT: res = cmb_resource_create(); cmb_resource_initialize(res, "r"); cmp = res->guard.priority_queue.heap_compare; break;
    case K_HOLD: pool = cmb_resourcepool_create(); cmb_resourcepool_initialize(pool, "p", 3); cmp = pool->holders.heap_compare; break;
    case K_OBJP: pq = cmb_priorityqueue_create(); cmb_priorityqueue_initialize(pq, "q", 3); cmp = pq->queue.heap_compare; break;
    default: cmp = NULL; break;
    }
    unsigned exp0 = 1 + (unsigned)vr_below(&r, 6);
    int keymode = (int)vr_below(&r, 3);          /* 0 generated, 1 supplied (any non-zero), 2 mixed (supplied >= 2^40) */
    if (kind == K_WAIT || kind == K_HOLD) keymode = vr_chance(&r, 3, 4) ? 1 : keymode;   /* the library supplies process addresses there */
    if (kind == K_EVENT || kind == K_OBJP) keymode = vr_chance(&r, 3, 4) ? 0 : keymode;  /* ... and generated handles here */
    hp = cmi_hashheap_create();
    cmi_hashheap_initialize(hp, (uint16_t)exp0, cmp);
    mn = 0; ndead = 0;
    uint64_t last_gen = 0;
    int maxops = churn ? 1500 : (int)vr_below(&r, 500) + 20;
    if (profile >= 20) maxops = 5000;            /* thorough long histories */
    int target = (int)vr_below(&r, churn ? 40 : 300) + 2;   /* population the history hovers around */
    int growths = 0, removes = 0, reprios = 0, collisions = 0, patmulti = 0;
    uint64_t uid = 0;
    vr_fp_mix((uint64_t)kind); vr_fp_mix(exp0); vr_fp_mix((uint64_t)keymode);
    if (!walk("init")) goto done;

    for (int op = 0; op < maxops && vr_nviol == 0; op++) {
        unsigned w = (unsigned)vr_below(&r, 100);
        int code;
        /* bias towards growing until target, then churn */
        if (mn < (size_t)target && w < 45) code = 0;
        else if (w < 30) code = 0;
        else if (w < 42) code = 1;
        else if (w < 47) code = 2;
        else if (w < 62) code = 3;
        else if (w < 72) code = 4;
        else if (w < 77) code = 5;
        else if (w < 82) code = 6;
        else if (w < 86) code = 7;
        else if (w < 89) code = 8;
        else if (w < 92) code = 9;
        else if (w < 97) code = 10;
        else if (w < 98) code = 11;
        else if (w < 99 && op > 8) code = 12;
        else code = 13;
        vr_fp_mix((uint64_t)code);
        nops_done++;
        if (optlen < sizeof optrace - 4) optlen += (size_t)snprintf(optrace + optlen, sizeof optrace - optlen, "%c", "EDPRrIqKfcXnCZ"[code]);
        switch (code) {
        case 0: { /* enqueue */
            struct ent e; uint64_t askkey = 0;
            int supplied = (keymode == 1) || (keymode == 2 && vr_chance(&r, 1, 2));
            if (supplied) {
                for (int tries = 0; tries < 50; tries++) {
                    uint64_t k;
                    unsigned how = (unsigned)vr_below(&r, 10);
                    if (how < 3 && mn > 0) { k = colliding_key(&r, M[vr_below(&r, mn)].key); collisions++; VR_CNT("collision_keys"); }
                    else if (how < 5 && ndead > 0) { k = dead[vr_below(&r, ndead)]; VR_CNT("reinserted_keys"); }
                    else if (how < 7) k = 0x7f0000000000ull + 64 * vr_below(&r, 4096);    /* pointer-like */
                    else k = vr_next(&r);
                    if (keymode == 2) k |= (1ull << 40);
                    else if (how >= 9) k = 1 + vr_below(&r, 64);
                    if (k == 0 || m_find(k) >= 0) continue;
                    askkey = k; break;
                }
                if (askkey == 0) break;
            }
            uint64_t size_before = hp->heap_size;
            e.item[0] = stored_alpha[vr_below(&r, 4)]; e.item[1] = stored_alpha[vr_below(&r, 4)];
            e.item[2] = (void *)(uintptr_t)(++uid); e.item[3] = (void *)(uintptr_t)vr_mix(uid);
            e.d = pick_d(&r); e.i = pick_i(&r);
            if (kind == K_HOLD) e.d = 0.0;
            uint64_t got = cmi_hashheap_enqueue(hp, e.item[0], e.item[1], e.item[2], e.item[3], askkey, e.d, e.i);
            VR_CNT("op_enqueue");
            if (askkey) { if (got != askkey) { BAD("C02/enqueue-key", "supplied key %" PRIu64 " returned %" PRIu64, askkey, got); break; } }
            else {
                if (got == 0 || m_find(got) >= 0) { BAD("C02/enqueue-genkey", "generated key %" PRIu64 " is zero or already live", got); break; }
                if (got <= last_gen) { BAD("C02/enqueue-genkey-order", "generated key %" PRIu64 " not above previous %" PRIu64, got, last_gen); break; }
                last_gen = got;
            }
            e.key = got; m_add(e);
            if (hp->heap_size != size_before) { growths++; VR_CNT("growths"); }
            break; }
        case 1: { /* dequeue */
            void **it = cmi_hashheap_dequeue(hp);
            VR_CNT("op_dequeue");
            if (mn == 0) { if (it != NULL) BAD("C02/dequeue-empty", "dequeue on empty returned non-NULL"); break; }
            if (it == NULL) { BAD("C02/dequeue-null", "dequeue returned NULL with %zu entries", mn); break; }
            uint64_t k = hp->heap[0].key; long mk = m_find(k);
            if (mk < 0) { BAD("C02/dequeue-ghost", "dequeued key %" PRIu64 " not live", k); break; }
            if (it[0] != M[mk].item[0] || it[1] != M[mk].item[1] || it[2] != M[mk].item[2] || it[3] != M[mk].item[3]) { BAD("C02/dequeue-payload", "dequeued key %" PRIu64 " with foreign payload", k); break; }
            if (!m_is_min((size_t)mk)) { BAD("C02/dequeue-not-min", "dequeued key %" PRIu64 " (d=%g i=%" PRId64 ") is not a minimum under the %s order", k, M[mk].d, M[mk].i, kind_name[kind]); break; }
            { size_t ties = 0; for (size_t j = 0; j < mn; j++) if ((long)j != mk && M[j].d == M[mk].d && M[j].i == M[mk].i) ties++; if (ties) VR_CNT("dequeue_with_full_tie"); }
            m_del((size_t)mk);
            break; }
        case 2: { /* peek */
            VR_CNT("op_peek");
            void **it = cmi_hashheap_peek_item(hp);
            if (mn == 0) { if (it != NULL) BAD("C02/peek-empty", "peek on empty returned non-NULL"); break; }
            if (it == NULL) { BAD("C02/peek-null", "peek NULL"); break; }
            uint64_t k = hp->heap[1].key; long mk = m_find(k);
            if (mk < 0 || !m_is_min((size_t)mk)) { BAD("C02/peek-not-min", "peek shows key %" PRIu64 " which is not a minimum (%s)", k, kind_name[kind]); break; }
            double d = cmi_hashheap_peek_dkey(hp); int64_t i = cmi_hashheap_peek_ikey(hp);
            if (memcmp(&d, &M[mk].d, 8) != 0 || i != M[mk].i) BAD("C02/peek-keys", "peek sort keys differ from model");
            break; }
        case 3: { /* remove by key */
            VR_CNT("op_remove");
            unsigned how = (unsigned)vr_below(&r, 10);
            if (how < 7 && mn > 0) {
                size_t k = vr_below(&r, mn); uint64_t key = M[k].key;
                bool ok = cmi_hashheap_remove(hp, key);
                if (!ok) { BAD("C02/remove-live", "remove(live key %" PRIu64 ") returned false", key); break; }
                m_del(k); removes++;
            } else if (how < 9 && ndead > 0) {
                uint64_t key = dead[vr_below(&r, ndead)];
                if (m_find(key) >= 0) break;
                if (cmi_hashheap_remove(hp, key)) BAD("C02/remove-dead", "remove(dead key %" PRIu64 ") returned true", key);
                VR_CNT("remove_dead_key");
            } else {
                uint64_t key = vr_next(&r) | 1; if (m_find(key) >= 0) break;
                if (cmi_hashheap_remove(hp, key)) BAD("C02/remove-never", "remove(never-issued key) returned true");
            }
            break; }
        case 4: { /* reprioritize */
            if (mn == 0) break;
            VR_CNT("op_reprioritize");
            size_t k = vr_below(&r, mn);
            double d = (kind == K_HOLD) ? 0.0 : (vr_chance(&r, 1, 2) ? M[k].d : pick_d(&r));
            int64_t i = vr_chance(&r, 1, 3) ? M[k].i : pick_i(&r);
            cmi_hashheap_reprioritize(hp, M[k].key, d, i);
            M[k].d = d; M[k].i = i; reprios++;
            break; }
        case 5: { /* item + mutate payload */
            if (mn == 0) break;
            VR_CNT("op_item");
            size_t k = vr_below(&r, mn);
            void **it = cmi_hashheap_item(hp, M[k].key);
            if (it[0] != M[k].item[0] || it[1] != M[k].item[1] || it[2] != M[k].item[2] || it[3] != M[k].item[3]) { BAD("C02/item-payload", "item(key %" PRIu64 ") shows foreign payload", M[k].key); break; }
            if (vr_chance(&r, 1, 2)) { it[1] = alpha[vr_below(&r, 3)]; M[k].item[1] = it[1]; }      /* payload words that are not sort keys may be changed in place */
            break; }
        case 6: { /* is_enqueued on live / dead / never */
            VR_CNT("op_is_enqueued");
            if (mn > 0) { uint64_t key = M[vr_below(&r, mn)].key; if (!cmi_hashheap_is_enqueued(hp, key)) { BAD("C02/is-enqueued-live", "live key %" PRIu64 " reported absent", key); break; } }
            if (ndead > 0) { uint64_t key = dead[vr_below(&r, ndead)]; if (m_find(key) < 0 && cmi_hashheap_is_enqueued(hp, key)) { BAD("C02/is-enqueued-dead", "dead key %" PRIu64 " reported present", key); break; } }
            { uint64_t key = vr_next(&r) | 1; if (m_find(key) < 0 && cmi_hashheap_is_enqueued(hp, key)) BAD("C02/is-enqueued-never", "never-issued key reported present"); }
            if (mn > 0) { uint64_t key = colliding_key(&r, M[vr_below(&r, mn)].key); if (key && m_find(key) < 0 && cmi_hashheap_is_enqueued(hp, key)) BAD("C02/is-enqueued-collider", "absent colliding key reported present"); }
            break; }
        case 7: { /* dkey / ikey */
            if (mn == 0) break;
            VR_CNT("op_keys");
            size_t k = vr_below(&r, mn);
            double d = cmi_hashheap_dkey(hp, M[k].key); int64_t i = cmi_hashheap_ikey(hp, M[k].key);
            if (memcmp(&d, &M[k].d, 8) != 0 || i != M[k].i) BAD("C02/keys", "dkey/ikey of key %" PRIu64 " differ from model", M[k].key);
            break; }
        case 8: case 9: case 10: { /* pattern find / count / cancel */
            void *v[4];
            v[0] = vr_chance(&r, 1, 2) ? CMI_ANY_ITEM : alpha[vr_below(&r, 3)];
            v[1] = vr_chance(&r, 1, 2) ? CMI_ANY_ITEM : alpha[vr_below(&r, 3)];
            v[2] = (vr_chance(&r, 3, 4) || mn == 0) ? CMI_ANY_ITEM : M[vr_below(&r, mn)].item[2];
            v[3] = CMI_ANY_ITEM;
            if (vr_chance(&r, 1, 10)) { v[0] = v[1] = v[2] = CMI_ANY_ITEM; }
            size_t expect = 0; for (size_t k = 0; k < mn; k++) if (pat_match(&M[k], v)) expect++;
            if (expect >= 2) { patmulti++; VR_CNT("pattern_ops_multi_match"); }
            if (expect > 128) VR_CNT("pattern_ops_beyond_128_matches"); if (expect > 1024) VR_CNT("pattern_ops_beyond_1024_matches");
            if (code == 8) {
                VR_CNT("op_pattern_find");
                uint64_t k = cmi_hashheap_pattern_find(hp, v[0], v[1], v[2], v[3]);
                if (expect == 0) { if (k != 0) BAD("C02/pattern-find-none", "pattern_find returned %" PRIu64 " with no match", k); }
                else { long mk = m_find(k); if (mk < 0 || !pat_match(&M[mk], v)) BAD("C02/pattern-find", "pattern_find returned key %" PRIu64 " that does not match (expected %zu matches)", k, expect); }
            } else if (code == 9) {
                VR_CNT("op_pattern_count");
                uint64_t c = cmi_hashheap_pattern_count(hp, v[0], v[1], v[2], v[3]);
                if (c != expect) BAD("C02/pattern-count", "pattern_count=%" PRIu64 " expected %zu", c, expect);
            } else {
                if (churn == 0 && !vr_chance(&r, 1, 3)) break;    /* keep populations alive */
                VR_CNT("op_pattern_cancel");
                uint64_t c = cmi_hashheap_pattern_cancel(hp, v[0], v[1], v[2], v[3]);
                if (c != expect) { BAD("C02/pattern-cancel", "pattern_cancel=%" PRIu64 " expected %zu", c, expect); break; }
                for (size_t k = 0; k < mn; ) { if (pat_match(&M[k], v)) m_del(k); else k++; }
            }
            break; }
        case 11: { /* count / is_empty */
            VR_CNT("op_count");
            if (cmi_hashheap_count(hp) != mn || cmi_hashheap_is_empty(hp) != (mn == 0)) BAD("C02/count-query", "count=%" PRIu64 " model %zu", cmi_hashheap_count(hp), mn);
            break; }
        case 12: { /* clear */
            VR_CNT("op_clear");
            cmi_hashheap_clear(hp);
            while (mn) m_del(mn - 1);
            /* the queue is reused after a clear: nothing from before may still look alive */
            { struct ent e; e.item[0] = alpha[0]; e.item[1] = alpha[1]; e.item[2] = (void *)(uintptr_t)(++uid); e.item[3] = (void *)(uintptr_t)vr_mix(uid); e.d = 1.0; e.i = 0; if (kind == K_HOLD) e.d = 0.0;
              uint64_t ak = (keymode == 1) ? (0x7e0000000000ull + 64 * uid) | 1 : 0; if (keymode == 2 && vr_chance(&r, 1, 2)) ak = (0x7e0000000000ull + 64 * uid) | (1ull << 40);
              uint64_t got = cmi_hashheap_enqueue(hp, e.item[0], e.item[1], e.item[2], e.item[3], ak, e.d, e.i); e.key = got; if (!ak) { if (got <= last_gen) BAD("C02/enqueue-genkey-order", "generated key %" PRIu64 " after clear not above %" PRIu64, got, last_gen); last_gen = got; } m_add(e);
              for (int q = 0; q < 8 && ndead && vr_nviol == 0; q++) { uint64_t dk = dead[ndead - 1 - vr_below(&r, ndead < 64 ? ndead : 64)]; if (m_find(dk) >= 0) continue; if (cmi_hashheap_is_enqueued(hp, dk)) BAD("C02/is-enqueued-dead", "after clear + re-use, cleared key %" PRIu64 " is reported present", dk); else if (cmi_hashheap_remove(hp, dk)) BAD("C02/remove-dead", "after clear + re-use, remove(cleared key %" PRIu64 ") returned true", dk); }
              VR_CNT("clear_then_reuse_checked"); }
            break; }
        case 13: { /* reset, or the two steps by hand with another initial size: a second life of the same struct, populated or not */
            if (vr_chance(&r, 1, 2)) {
                VR_CNT("op_reset");
                cmi_hashheap_reset(hp);
                while (mn) m_del(mn - 1);
                if (hp->heap_exp_cur != exp0) BAD("C02/reset-exp", "reset left exponent %u (init %u)", hp->heap_exp_cur, exp0);
            } else {
                VR_CNT("op_terminate_initialize"); if (mn) VR_CNT("second_lives_after_a_populated_first");
                cmi_hashheap_terminate(hp);
                exp0 = 1 + (unsigned)vr_below(&r, 6);
                cmi_hashheap_initialize(hp, (uint16_t)exp0, cmp);
                while (mn) m_del(mn - 1);
                if (cmi_hashheap_count(hp) != 0 || !cmi_hashheap_is_empty(hp)) BAD("C02/count-query", "a hashheap initialised again reports %" PRIu64 " entries", cmi_hashheap_count(hp));
            }
            break; }
        }
        if (vr_nviol) break;
        /* walk after every op for short histories, every 7th for long ones */
        if (maxops <= 600 || (op % 7) == 0) { snprintf(opsig, sizeof opsig, "op#%d code %d", op, code); if (!walk(opsig)) break; }
        /* tombstone statistics */
        if ((op & 63) == 0) { uint64_t tomb = 0, never = 0; for (uint64_t s = 0; s < hp->hash_size; s++) { if (hp->hash_map[s].key == 0) never++; else if (hp->hash_map[s].heap_index == 0) tomb++; } VR_MAX("max_tombstone_permille", tomb * 1000 / hp->hash_size); if (never == 0) VR_CNT("saw_no_never_used_slot"); }
    }
    /* mass cancellation: one pattern matching 129 .. 1500 entries among others that must stay */
    if (vr_nviol == 0 && vr_chance(&r, 1, 4)) {
        static const size_t KS[] = { 129, 130, 200, 257, 300, 1100, 1500 };
        size_t K = KS[vr_below(&r, 7)];
        for (size_t q = 0; q < K + K / 3 && vr_nviol == 0; q++) {
            struct ent e; uint64_t askkey = (keymode == 1) ? ((0x7d0000000000ull + 64 * (++uid)) | 1) : 0; if (keymode == 1 && m_find(askkey) >= 0) continue;
            e.item[0] = (q % 4 == 3) ? stored_alpha[1] : stored_alpha[0]; e.item[1] = stored_alpha[vr_below(&r, 4)];
            e.item[2] = (void *)(uintptr_t)(++uid); e.item[3] = (void *)(uintptr_t)vr_mix(uid); e.d = pick_d(&r); e.i = pick_i(&r); if (kind == K_HOLD) e.d = 0.0;
            uint64_t got = cmi_hashheap_enqueue(hp, e.item[0], e.item[1], e.item[2], e.item[3], askkey, e.d, e.i);
            if (got == 0 || (askkey && got != askkey) || m_find(got) >= 0) { BAD("C02/enqueue-key", "mass phase: enqueue returned key %" PRIu64, got); break; }
            if (!askkey) last_gen = got;
            e.key = got; m_add(e);
        }
        void *v[4] = { stored_alpha[0], CMI_ANY_ITEM, CMI_ANY_ITEM, CMI_ANY_ITEM };
        size_t expect = 0; for (size_t k = 0; k < mn; k++) if (pat_match(&M[k], v)) expect++;
        if (vr_nviol == 0) {
            uint64_t c = cmi_hashheap_pattern_count(hp, v[0], v[1], v[2], v[3]);
            if (c != expect) BAD("C02/pattern-count", "mass phase: pattern_count=%" PRIu64 " expected %zu", c, expect);
            else { c = cmi_hashheap_pattern_cancel(hp, v[0], v[1], v[2], v[3]);
                if (c != expect) BAD("C02/pattern-cancel", "pattern_cancel of %zu matching entries among %zu returned %" PRIu64, expect, mn, c);
                else { for (size_t k = 0; k < mn; ) { if (pat_match(&M[k], v)) m_del(k); else k++; }
                    if (cmi_hashheap_pattern_count(hp, v[0], v[1], v[2], v[3]) != 0 || cmi_hashheap_count(hp) != mn) BAD("C02/pattern-cancel", "after cancelling %zu matches: %" PRIu64 " still match, count %" PRIu64 " (model %zu)", expect, cmi_hashheap_pattern_count(hp, v[0], v[1], v[2], v[3]), cmi_hashheap_count(hp), mn);
                    else walk("mass cancel"); } }
            VR_CNT("mass_pattern_cancels"); if (expect > 128) VR_CNT("pattern_ops_beyond_128_matches"); if (expect > 1024) VR_CNT("pattern_ops_beyond_1024_matches");
        }
    }
    /* drain: full order check */
    if (vr_nviol == 0) {
        struct ent prev; bool have = false;
        while (mn > 0 && vr_nviol == 0) {
            void **it = cmi_hashheap_dequeue(hp);
            if (!it) { BAD("C02/drain-null", "drain: NULL with %zu left", mn); break; }
            long mk = m_find(hp->heap[0].key);
            if (mk < 0) { BAD("C02/drain-ghost", "drain: key %" PRIu64 " not live", hp->heap[0].key); break; }
            if (!m_is_min((size_t)mk)) { BAD("C02/dequeue-not-min", "drain: key %" PRIu64 " (d=%g i=%" PRId64 ") not a minimum under the %s order", M[mk].key, M[mk].d, M[mk].i, kind_name[kind]); break; }
            if (have && spec_cmp(&M[mk], &prev) < 0) { BAD("C02/drain-order", "drain: order regressed"); break; }
            prev = M[mk]; have = true; m_del((size_t)mk);
            VR_CNT("drained");
        }
        if (vr_nviol == 0) { if (cmi_hashheap_dequeue(hp) != NULL) BAD("C02/dequeue-empty", "dequeue after drain non-NULL"); walk("drain"); }
    }
done:
    VR_ADD("ops", nops_done);
    if (growths >= 1 && (removes + reprios) >= 1) vr_mark_nontrivial();
    if (growths >= 3) VR_CNT("cases_3plus_growths");
    if (idx % 97 == 0) vr_sample("kind=%s exp0=%u keymode=%d ops=%d growths=%d removes=%d reprios=%d colliding=%d pattern_multi=%d final_exp=%u first ops (E enqueue D dequeue P peek R remove r reprioritize I item q is_enqueued K keys f/c/X pattern find/count/cancel n count C clear Z reset): %s", kind_name[kind], exp0, keymode, nops_done, growths, removes, reprios, collisions, patmulti, hp->heap_exp_cur, optrace);
}

int main(int argc, char **argv) { return vr_main(argc, argv); }
