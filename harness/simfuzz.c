/*
 * simfuzz - scenario generator + script interpreter running as real cmb_process
 * coroutines and plain events against the real library, with an API-boundary
 * trace and online monitors evaluated between events and at every clock advance.
 * Serves C04-C14 (and C10 when built with sanitizers).  See DESIGN.md 3.1, 4, App. A.
 *
 * profile 0 waits, 1 mutex, 2 queueing, 3 pool, 4 wakeup, 5 lifecycle, 6 buffer,
 *         7 queues, 8 condition, 9 recording, 10 growth, 11 mixed; 100+ directed scenarios
 */
#include "simfuzz.h"
#include "sf_state.inc"
static int ppre_pid[MAXO]; static int64_t ppre_prio[MAXO]; static uint64_t ppre_callseq[MAXO]; static uint64_t pvict_seq[MAXO][MAXP];     /* the last preempt call on each pool in the current event: who, how strong, when (ledger sequence) */
#include "sf_calls.inc"
#include "sf_script.inc"
#include "sf_monitor.inc"
static void drive(int cap);
#include "sf_directed.inc"

static void add_guard(struct cmb_resourceguard *g, int type, int obj) { GD[ngd].g = g; GD[ngd].type = type; GD[ngd].obj = obj; GD[ngd].nsnap = 0; ngd++; }
static void add_rec(int cls, int obj) { memset(&REC[nrec], 0, sizeof REC[nrec]); REC[nrec].cls = cls; REC[nrec].obj = obj; nrec++; }

/* LIFE > 0: the objects of the world exist already, in whatever state the previous life left them (units out, queues and waiting lists
 * populated, recording on); each one is terminated and initialised again, the event queue likewise, and new processes are created. */
static int LIFE; static bool capped;
static void world_setup(void)
{
    static const uint64_t bufcaps[] = { 1, 3, 7, CMB_UNLIMITED, UINT64_MAX - 2 };
    static const uint64_t qcaps[] = { 1, 2, 5, CMB_UNLIMITED };
    int P = PROFILE;
    const bool again = LIFE > 0;
    bool wide = vr_chance(&G, 1, 6) || P == 10;
    NP = wide ? 9 + (int)vr_below(&G, 32) : 2 + (int)vr_below(&G, 11);
    int keep[6] = { NR, NPL, NB, NOQ, NPQ, NCV };
    NR = (P == 1 || P == 0 || P == 5) ? 1 + (int)vr_below(&G, 2) : (P == 3 || P == 6 || P == 7) ? 0 : (int)vr_below(&G, 3);
    NPL = (P == 3) ? 1 + (int)vr_below(&G, 2) : (P == 1 || P == 6 || P == 7) ? 0 : (int)vr_below(&G, 3);
    NB = (P == 6) ? 1 + (int)vr_below(&G, 2) : (P == 1 || P == 3 || P == 7) ? 0 : (int)vr_below(&G, 3);
    NOQ = (P == 7) ? 1 + (int)vr_below(&G, 2) : (P == 1 || P == 3 || P == 6) ? 0 : (int)vr_below(&G, 3);
    NPQ = (P == 7) ? 1 + (int)vr_below(&G, 2) : (P == 1 || P == 3 || P == 6) ? 0 : (int)vr_below(&G, 3);
    NCV = (P == 8) ? 1 + (int)vr_below(&G, 2) : (P == 1 || P == 3 || P == 6 || P == 7) ? 0 : (int)vr_below(&G, 3);
    if (P == 8 && vr_chance(&G, 1, 2)) { if (!NPQ) NPQ = 1; if (!NOQ) NOQ = 1; }      /* conditions watching queues */
    if (NR > MAXO) NR = MAXO; if (NPL > MAXO) NPL = MAXO; if (NB > MAXO) NB = MAXO; if (NOQ > MAXO) NOQ = MAXO; if (NPQ > MAXO) NPQ = MAXO; if (NCV > MAXO) NCV = MAXO;
    if (again) { NR = keep[0]; NPL = keep[1]; NB = keep[2]; NOQ = keep[3]; NPQ = keep[4]; NCV = keep[5]; }
    static const double starts[] = { 0.0, 0.0, -100.0, 1e12 };
    T0 = starts[vr_below(&G, 4)];
    if (again) {
        /* the old lives end here: objects first (a dropped holder makes the library grant the resource to the next waiter of the old life:
         * that wake-up goes into the old event queue and dies with it), the event queue last */
        for (int k = 0; k < NCV; k++) for (int g = 0; g < ngd; g++) if (OBS[k][g]) { cmb_resourceguard_unregister(GD[g].g, &CV[k]->guard); OBS[k][g] = false; }
        for (int i = 0; i < ngd; i++) for (int j = 0; j < ngd; j++) if (GOBS[i][j]) { cmb_resourceguard_unregister(GD[i].g, GD[j].g); GOBS[i][j] = false; }
        for (int k = 0; k < NCV; k++) cmb_condition_terminate(CV[k]);
        for (int k = 0; k < NR; k++) cmb_resource_terminate(RES[k]);
        for (int k = 0; k < NPL; k++) cmb_resourcepool_terminate(POOL[k]);
        for (int k = 0; k < NB; k++) cmb_buffer_terminate(BUF[k]);
        for (int k = 0; k < NOQ; k++) cmb_objectqueue_terminate(OQ[k]);
        for (int k = 0; k < NPQ; k++) cmb_priorityqueue_terminate(PQ[k]);
        cmb_event_queue_terminate();
    }
    cmb_event_queue_initialize(T0);
    if (cmb_time() != T0 || !cmb_event_queue_is_empty()) VIOL("C01/second-life", "event queue initialised at %g: clock %g, %s", T0, cmb_time(), cmb_event_queue_is_empty() ? "empty" : "not empty");
    ngd = 0; nrec = 0; npev = 0; nled = 0; ncobl = 0; ncwk = 0; seqno = 0;
    char nm[800];
    /* names longer than the 32-byte name field are documented as truncated: one object in four gets a path-like name of 32..700 characters */
#define LONGNAME() do { if (vr_chance(&G, 1, 4)) { static const size_t ln_[] = { 32, 33, 40, 63, 64, 130, 200, 330, 700 }; size_t want_ = ln_[vr_below(&G, 9)], at_ = strlen(nm); while (at_ < want_) { nm[at_] = (at_ % 9 == 0) ? '/' : (char)('a' + at_ % 26); at_++; } nm[at_] = 0; VR_CNT("objects_with_names_longer_than_the_name_field"); } } while (0)
    for (int k = 0; k < NR; k++) { if (!again) RES[k] = cmb_resource_create(); snprintf(nm, sizeof nm, "res%d", k); LONGNAME(); cmb_resource_initialize(RES[k], nm); if (again && (cmb_resource_in_use(RES[k]) != 0 || cmb_resource_available(RES[k]) != 1)) VIOL("C05/in-use-after-reinitialize", "resource %d initialised again but in use", k); sh_res_holder[k] = -1; add_guard(&RES[k]->guard, GT_RES, k); add_rec(RC_RES, k); }
    for (int k = 0; k < NPL; k++) { if (!again) POOL[k] = cmb_resourcepool_create(); POOLCAP[k] = 1 + vr_below(&G, 8); if (vr_chance(&G, 1, 8)) { static const uint64_t huge[] = { UINT64_MAX, ((uint64_t)1 << 63) + 5, UINT64_MAX - 1 }; POOLCAP[k] = huge[vr_below(&G, 3)]; VR_CNT("pools_with_capacity_above_2_63"); } snprintf(nm, sizeof nm, "pool%d", k); LONGNAME(); cmb_resourcepool_initialize(POOL[k], nm, POOLCAP[k]); if (again && (cmb_resourcepool_in_use(POOL[k]) != 0 || cmb_resourcepool_available(POOL[k]) != POOLCAP[k])) VIOL("C07/in-use-after-reinitialize", "pool %d initialised again with capacity %" PRIu64 ": in_use %" PRIu64 ", available %" PRIu64, k, POOLCAP[k], cmb_resourcepool_in_use(POOL[k]), cmb_resourcepool_available(POOL[k])); add_guard(&POOL[k]->guard, GT_POOL, k); add_rec(RC_POOL, k); for (int q = 0; q < MAXP; q++) { sh_pool[k][q] = 0; last_lib_pool[k][q] = 0; } ppre_pid[k] = -1; }
    for (int k = 0; k < NB; k++) { if (!again) BUF[k] = cmb_buffer_create(); BUFCAP[k] = bufcaps[vr_below(&G, 5)]; snprintf(nm, sizeof nm, "buf%d", k); LONGNAME(); cmb_buffer_initialize(BUF[k], nm, BUFCAP[k]); if (again && (cmb_buffer_level(BUF[k]) != 0 || cmb_buffer_space(BUF[k]) != BUFCAP[k])) VIOL("C11/level-after-reinitialize", "buffer %d initialised again with capacity %" PRIu64 ": level %" PRIu64 ", space %" PRIu64, k, BUFCAP[k], cmb_buffer_level(BUF[k]), cmb_buffer_space(BUF[k])); buf_last[k] = cmb_buffer_level(BUF[k]); buf_init[k] = buf_last[k]; buf_put_total[k] = buf_got_total[k] = 0; acct_put[k] = acct_got[k] = 0; add_guard(&BUF[k]->front_guard, GT_BUFFRONT, k); add_guard(&BUF[k]->rear_guard, GT_BUFREAR, k); add_rec(RC_BUF, k); }
    for (int k = 0; k < NOQ; k++) { if (!again) OQ[k] = cmb_objectqueue_create(); OQCAP[k] = qcaps[vr_below(&G, 4)]; snprintf(nm, sizeof nm, "oq%d", k); LONGNAME(); cmb_objectqueue_initialize(OQ[k], nm, OQCAP[k]); if (again && (cmb_objectqueue_length(OQ[k]) != 0 || cmb_objectqueue_space(OQ[k]) != OQCAP[k])) VIOL("C12/length-after-reinitialize", "objectqueue %d initialised again: length %" PRIu64, k, cmb_objectqueue_length(OQ[k])); oqn[k] = 0; add_guard(&OQ[k]->front_guard, GT_OQFRONT, k); add_guard(&OQ[k]->rear_guard, GT_OQREAR, k); add_rec(RC_OQ, k); }
    for (int k = 0; k < NPQ; k++) { if (!again) PQ[k] = cmb_priorityqueue_create(); PQCAP[k] = qcaps[vr_below(&G, 4)]; snprintf(nm, sizeof nm, "pq%d", k); LONGNAME(); cmb_priorityqueue_initialize(PQ[k], nm, PQCAP[k]); if (again && (cmb_priorityqueue_length(PQ[k]) != 0 || cmb_priorityqueue_space(PQ[k]) != PQCAP[k])) VIOL("C12/length-after-reinitialize", "priorityqueue %d initialised again: length %" PRIu64, k, cmb_priorityqueue_length(PQ[k])); if (again) { /* handles of the earlier life stay known to the scripts: they name objects that are gone, whatever the new life queues */
            for (int j = 0; j < pqn[k]; j++) { if (pq_ndead[k] < 64) pq_dead[k][pq_ndead[k]++] = pqm[k][j].h; else pq_dead[k][vr_below(&G, 64)] = pqm[k][j].h; } if (pq_ndead[k]) VR_CNT("c12_queues_reinitialised_with_old_handles_remembered"); }
        else pq_ndead[k] = 0;
        pqn[k] = 0; add_guard(&PQ[k]->front_guard, GT_PQFRONT, k); add_guard(&PQ[k]->rear_guard, GT_PQREAR, k); add_rec(RC_PQ, k); }
    int nobjguards = ngd;
    /* documented: any guard may observe another one (no cycles): a signal on i is forwarded to j and on to j's observers */
    memset(GOBS, 0, sizeof GOBS); memset(OBS, 0, sizeof OBS);
    if (nobjguards >= 2 && vr_chance(&G, 1, 3)) { int nlinks = 1 + (int)vr_below(&G, 2); for (int l = 0; l < nlinks; l++) { int i = (int)vr_below(&G, (uint64_t)nobjguards - 1); int j = i + 1 + (int)vr_below(&G, (uint64_t)(nobjguards - 1 - i)); if (!GOBS[i][j]) { cmb_resourceguard_register(GD[i].g, GD[j].g); GOBS[i][j] = true; VR_CNT("guard_observes_guard_links"); } } }
    for (int k = 0; k < NCV; k++) {
        if (!again) CV[k] = cmb_condition_create(); snprintf(nm, sizeof nm, "a-condition-with-a-long-name-%d", k); LONGNAME(); cmb_condition_initialize(CV[k], nm);
        add_guard(&CV[k]->guard, GT_COND, k);
        /* observe every object guard: half through cmb_condition_subscribe, half through cmb_resourceguard_register */
        bool subset = vr_chance(&G, 1, 4);
        for (int g = 0; g < nobjguards; g++) { if (subset && vr_chance(&G, 1, 2)) continue; if ((g + k) & 1) cmb_condition_subscribe(CV[k], GD[g].g); else cmb_resourceguard_register(GD[g].g, &CV[k]->guard); OBS[k][g] = true; }
    }
    for (int k = 0; k < 4; k++) FLAG[k] = 0;
    int nstart = 0;
    for (int k = 0; k < NP; k++) {
        struct P *p = &procs[k]; memset(p, 0, sizeof *p);
        p->id = k; p->rng = vr_rng_make(vr_next(&G), (uint64_t)k, 0x51); p->prio = pick_prio(&G);
        p->max_steps = 4 + (int)vr_below(&G, wide ? 14 : 40);
        p->pp = cmb_process_create(); snprintf(nm, sizeof nm, "proc%d", k); LONGNAME();
        cmb_process_initialize(p->pp, nm, proc_body, p, p->prio); p->created = true;
        if (k < 2 || vr_chance(&G, 4, 5)) { p->start_pending = true; cmb_process_start(p->pp); nstart++; }
    }
    int nev = (int)vr_below(&G, P == 10 ? 21 : 6);
    for (int k = 0; k < nev; k++) sched_pev(&G);
    /* recording on from the start for some objects */
    for (int k = 0; k < nrec; k++) if (vr_chance(&G, P == 9 ? 3 : 1, 4)) W_recording(NULL, k, true);
    vr_fp_mix((uint64_t)NP * 1000003u + (uint64_t)(NR + 3 * NPL + 9 * NB + 27 * NOQ + 81 * NPQ + 243 * NCV));
    VR_ADD("processes", NP); if (wide) VR_CNT("wide_worlds");
    if (again) { VR_CNT("worlds_in_a_second_life"); for (int k = 0; k < nrec; k++) if (rec_lib_on(&REC[k]) != REC[k].on) VIOL("C14/recording-flag-after-reinitialize", "%s %d initialised again: the library says recording is %s", rcname[REC[k].cls], REC[k].obj, rec_lib_on(&REC[k]) ? "on" : "off"); }
}

static void world_teardown(void)
{
    /* every process is stopped from the dispatcher before terminate/destroy; objects are destroyed after processes */
    running_pid = -1;
    for (int k = 0; k < NP; k++) if (cmb_process_status(procs[k].pp) == CMB_PROCESS_RUNNING) cmb_process_stop(procs[k].pp, NULL);
    cmb_event_queue_clear();
    for (int k = 0; k < nrec; k++) if (REC[k].on) { REC[k].windows = 9; W_recording(NULL, k, false); }
    /* every report-printing function on whatever state the objects are in (C10) */
    FILE *nul = fopen("/dev/null", "w");
    if (nul) {
        for (int k = 0; k < nrec; k++) { if (!REC[k].ever || cmb_timeseries_count(rec_hist(&REC[k])) < 1) VR_CNT("reports_printed_of_objects_that_never_recorded");     /* nothing to report is a report too */
            c14_report(k);
            VR_CNT("reports_printed"); }
        fclose(nul);
    }
    /* objects are re-usable: terminate + initialize again must give an empty object of the new size (C11, C12, C07, C05) */
    for (int k = 0; k < NB; k++) { uint64_t nc = 1 + vr_below(&G, 5); cmb_buffer_terminate(BUF[k]); cmb_buffer_initialize(BUF[k], "again", nc);
        if (cmb_buffer_level(BUF[k]) != 0 || cmb_buffer_space(BUF[k]) != nc) VIOL("C11/level-after-reinitialize", "buffer %d re-initialised with capacity %" PRIu64 ": level %" PRIu64 ", space %" PRIu64, k, nc, cmb_buffer_level(BUF[k]), cmb_buffer_space(BUF[k])); VR_CNT("reinitialised_objects"); }
    for (int k = 0; k < NPL; k++) { uint64_t nc = 1 + vr_below(&G, 5); cmb_resourcepool_terminate(POOL[k]); cmb_resourcepool_initialize(POOL[k], "again", nc);
        if (cmb_resourcepool_in_use(POOL[k]) != 0 || cmb_resourcepool_available(POOL[k]) != nc) VIOL("C07/in-use-after-reinitialize", "pool %d re-initialised: in_use %" PRIu64, k, cmb_resourcepool_in_use(POOL[k])); VR_CNT("reinitialised_objects"); }
    for (int k = 0; k < NR; k++) { cmb_resource_terminate(RES[k]); cmb_resource_initialize(RES[k], "again"); if (cmb_resource_in_use(RES[k]) != 0) VIOL("C05/in-use-after-reinitialize", "resource %d re-initialised but in use", k); VR_CNT("reinitialised_objects"); }
    for (int k = 0; k < NPQ; k++) { cmb_priorityqueue_terminate(PQ[k]); cmb_priorityqueue_initialize(PQ[k], "again", 3); if (cmb_priorityqueue_length(PQ[k]) != 0 || cmb_priorityqueue_space(PQ[k]) != 3) VIOL("C12/length-after-reinitialize", "priorityqueue %d re-initialised: length %" PRIu64, k, cmb_priorityqueue_length(PQ[k])); VR_CNT("reinitialised_objects"); }
    for (int k = 0; k < NP; k++) { cmb_process_terminate(procs[k].pp); cmb_process_destroy(procs[k].pp); }
    for (int k = 0; k < NCV; k++) cmb_condition_destroy(CV[k]);
    for (int k = 0; k < NR; k++) cmb_resource_destroy(RES[k]);
    for (int k = 0; k < NPL; k++) cmb_resourcepool_destroy(POOL[k]);
    for (int k = 0; k < NB; k++) cmb_buffer_destroy(BUF[k]);
    for (int k = 0; k < NOQ; k++) cmb_objectqueue_destroy(OQ[k]);
    for (int k = 0; k < NPQ; k++) cmb_priorityqueue_destroy(PQ[k]);
    cmb_event_queue_terminate();
}

static void drive(int cap)
{
    struct cmi_hashheap *q = cmi_verif_event_queue();
    int events = 0; double last_t = cmb_time(); int same_t = 0;
    for (;;) {
        if (vr_nviol) return;
        bool empty = q->heap_count == 0;
        double next_t = empty ? 0 : q->heap[1].dsortkey;
        if (empty || next_t > cmb_time()) mon_instant_end(empty, next_t);
        if (vr_nviol || empty) break;
        running_pid = pid_of(q->heap[1].item[1]);     /* the subject of every wake-up event is the process it resumes */
        for (int pl = 0; pl < NPL; pl++) { ppre_pid[pl] = -1; ppre_callseq[pl] = 0; for (int k = 0; k < NP; k++) pvict_seq[pl][k] = 0; }
        /* C09: nothing addressed to an ended process may fire any more (a user's own event about it excepted), however soon after its end */
        if (running_pid >= 0 && procs[running_pid].ended && !procs[running_pid].start_pending) {
            bool users = false; for (int e = 0; e < npev; e++) if (PEV[e].pending && PEV[e].subj_pid == running_pid && PEV[e].h == q->heap[1].key) users = true;
            if (!users) { VIOL("C09/event-fires-after-end", "an event addressed to process %d fires at t=%g although the process ended (%s) at t=%g and was not restarted", running_pid, next_t, routename[procs[running_pid].route], procs[running_pid].end_time); return; }
            VR_CNT("c09_user_events_about_ended_process_fired");
        }
        trace_add("t=%.9g EV key=%" PRIu64 " pri=%" PRId64 " subj=P%d; ", next_t, q->heap[1].key, q->heap[1].isortkey, running_pid);
        if (!cmb_event_execute_next()) break;
        events++;
        if (cmb_time() < last_t) VIOL("C01/clock-decreased", "clock went from %g to %g", last_t, cmb_time());
        if (cmb_time() == last_t) same_t++; else { same_t = 0; last_t = cmb_time(); }
        mon_after_event();
        if (events >= cap) {
            if (same_t > cap / 2) VIOL("C08/livelock", "more than %d consecutive events without the clock advancing (t=%g)", same_t, cmb_time());
            else { vr_inconclusive("event cap %d reached at t=%g", cap, cmb_time()); capped = true; }
            return;
        }
    }
    VR_ADD("events_executed", events);
    if (events > 8) VR_CNT("event_queue_beyond_initial_capacity_possible");
    VR_MAX("max_event_queue_capacity", q->heap_size);
}

void vr_case(uint64_t seed, uint64_t idx, int profile)
{
    cmb_logger_flags_off(CMB_LOGGER_INFO | CMB_LOGGER_WARNING);
    G = vr_rng_make(seed, idx, 0x5F + (uint64_t)profile);
    PROFILE = profile;
    trace_on = (idx % 199 == 0); tracelen = 0; tracebuf[0] = 0;
    if (profile >= 100) { directed(profile - 100); return; }
    if (PROFILE > 11) PROFILE = 11;
    LIFE = 0; capped = false;
    world_setup();
    drive(50000);
    int blocked = 0, finished = 0;
    for (int k = 0; k < NP; k++) { if (procs[k].ended) finished++; else if (procs[k].in_call) blocked++; }
    VR_ADD("processes_finished", finished); VR_ADD("processes_blocked_at_exhaustion", blocked);
    /* one world in four gets a second life on the same objects: after an orderly end (everybody stopped, processes destroyed) or after
     * being cut off (the run is simply abandoned: processes stay suspended wherever they are, holding what they hold, and are never
     * touched again) */
    if (vr_nviol == 0 && !capped && vr_chance(&G, 1, 4)) {
        running_pid = -1;
        if (vr_chance(&G, 1, 2)) {
            for (int k = 0; k < NP; k++) if (cmb_process_status(procs[k].pp) == CMB_PROCESS_RUNNING) cmb_process_stop(procs[k].pp, NULL);
            cmb_event_queue_clear();
            for (int k = 0; k < NP; k++) { cmb_process_terminate(procs[k].pp); cmb_process_destroy(procs[k].pp); }
            VR_CNT("first_lives_ended_in_order");
        } else { if (blocked) VR_CNT("first_lives_cut_off_with_processes_suspended"); else VR_CNT("first_lives_cut_off"); }
        LIFE = 1;
        world_setup();
        if (vr_nviol == 0) drive(50000);
    }
    if (vr_nviol == 0) world_teardown();
    uint64_t nb = 0; for (int i = 0; i < vr_ncnt; i++) if (strncmp(vr_cnt_name[i], "ret_", 4) == 0 && strstr(vr_cnt_name[i], "_by_")) nb += vr_cnt_val[i];
    if (nb >= 1) vr_mark_nontrivial();
    if (idx % 199 == 0) vr_sample("profile=%d processes=%d resources=%d pools=%d buffers=%d objectqueues=%d priorityqueues=%d conditions=%d start_time=%g finished=%d blocked_at_end=%d non-success returns=%" PRIu64 " | trace (P<n>>call(obj) = call record, P<n><call=signal = return record, P<n>.op = non-blocking op; -1 = dispatcher): %s...", profile, NP, NR, NPL, NB, NOQ, NPQ, NCV, T0, finished, blocked, nb, tracebuf);
}

int main(int argc, char **argv) { return vr_main(argc, argv); }
