/*
 * expcheck - cimba_run_experiment against sequential execution of the same
 * trials, with per-worker state pollution and heap scrambling.   Property C19.
 *
 * One case = one experiment: trial count from {1,2,15,16,17,64,200,1000}, element
 * size from {8,24,72,4096,odd}, trial bodies = seeded small simulations of very
 * different length using processes, a resource, a pool, a buffer, a condition and
 * most samplers (including the cached ones).  The same trials are also run one
 * after another in the main thread; every result byte must be identical.
 */
#include "vr.h"
#include <pthread.h>
#include <math.h>
#include "cimba.h"
#include "cmb_priorityqueue.h"
#include <stdatomic.h>
#include <sched.h>

/* ---- side tables (indexed by trial number computed from the element address) */
#define MAXTR 1024
static unsigned char *arr; static size_t stride; static uint64_t ntrials;
static uint64_t tseed[MAXTR]; static uint32_t tlen[MAXTR];
struct res { uint64_t hash; double fp[4]; uint64_t events; };
static struct res res_par[MAXTR], res_seq[MAXTR];
static pthread_t who_ran[MAXTR];
static uint64_t execcnt[MAXTR];
static int bad_pointer;            /* trial function saw a pointer that is not an element */
static _Atomic int in_seq;         /* 1 while the sequential reference runs */

/* ---- the simulation inside a trial ------------------------------------- */
struct world {
    struct cmb_resource *res; struct cmb_resourcepool *pool; struct cmb_buffer *buf; struct cmb_condition *cond;
    struct cmb_objectqueue *oq; struct cmb_priorityqueue *pq; uint64_t objctr;
    int flag; uint64_t h; double acc[4]; uint64_t nev; int steps; int lattice; double near_shape, near_p;
    struct cmb_process *cust[12]; int ncust;
};
static _Thread_local struct world *W;
static void hmix(uint64_t v) { W->h = (W->h ^ v) * 0x100000001b3ull; W->h ^= W->h >> 29; }
static void hmixd(double d) { uint64_t u; memcpy(&u, &d, 8); hmix(u); }

static bool cond_flag(const struct cmb_condition *c, const struct cmb_process *p, const void *ctx) { (void)c; (void)p; (void)ctx; return W->flag != 0; }

static void *customer(struct cmb_process *me, void *ctx)
{
    int id = (int)(intptr_t)ctx;
    for (int s = 0; s < W->steps; s++) {
        /* half of the trials use lattice durations so that equal priorities meet at equal times in the waiting lists (exact ties) */
        int64_t sig = cmb_process_hold(W->lattice ? 0.5 * (double)cmb_random_dice(0, 2) : cmb_random_exponential(1.0 + 0.1 * id));
        hmix((uint64_t)sig + 17); hmixd(cmb_time()); W->nev++;
        switch (cmb_random_dice(0, 6)) {
        case 0: case 1: {
            sig = cmb_resource_acquire(W->res);
            hmix((uint64_t)sig + 1); hmixd(cmb_time());
            if (sig == CMB_PROCESS_SUCCESS) {
                sig = cmb_process_hold(W->lattice ? (double)cmb_random_flip() : cmb_random_gamma(cmb_random_flip() ? 2.0 : 0.7, 0.5));
                hmix((uint64_t)sig + 2);
                if (cmb_resource_held_by_process(W->res, me)) cmb_resource_release(W->res);
                W->acc[0] += cmb_time() * 1e-3;
            }
            break; }
        case 2: {
            uint64_t n = 1 + (uint64_t)cmb_random_dice(0, 2);
            sig = cmb_resourcepool_acquire(W->pool, n);
            hmix((uint64_t)sig + 3); hmixd(cmb_time());
            if (sig == CMB_PROCESS_SUCCESS) {
                sig = cmb_process_hold(cmb_random_triangular(0.1, 0.3, 1.0));
                uint64_t held = cmb_resourcepool_held_by_process(W->pool, me);
                if (held) cmb_resourcepool_release(W->pool, held);
                W->acc[1] += (double)held;
            }
            break; }
        case 3: {
            uint64_t amt = 1 + (uint64_t)cmb_random_geometric(0.4);
            if (cmb_random_bernoulli(0.5)) sig = cmb_buffer_put(W->buf, &amt); else sig = cmb_buffer_get(W->buf, &amt);
            hmix((uint64_t)sig + 4); hmix(amt); hmixd(cmb_time());
            break; }
        case 4: {
            if (cmb_random_flip()) { W->flag = 1; cmb_condition_signal(W->cond); hmix(99); }
            else { W->flag = 0; cmb_process_timer_add(me, cmb_random_weibull(1.5, 2.0), CMB_PROCESS_TIMEOUT); sig = cmb_condition_wait(W->cond, cond_flag, NULL); cmb_process_timers_clear(me); hmix((uint64_t)sig + 5); hmixd(cmb_time()); }
            break; }
        case 5: if (cmb_random_flip()) {
            /* object traffic: the tag pools behind the queues are per-thread state too */
            void *o = (void *)(uintptr_t)(++W->objctr * 16 + (uint64_t)id);
            if (cmb_random_flip()) { if (cmb_objectqueue_length(W->oq) < 6) { sig = cmb_objectqueue_put(W->oq, o); hmix((uint64_t)sig + 6); } else { void *g = NULL; sig = cmb_objectqueue_get(W->oq, &g); hmix((uint64_t)(uintptr_t)g); } }
            else { if (cmb_priorityqueue_length(W->pq) < 6) { sig = cmb_priorityqueue_put(W->pq, o, cmb_random_dice(0, 2), NULL); hmix((uint64_t)sig + 7); } else { void *g = NULL; sig = cmb_priorityqueue_get(W->pq, &g); hmix((uint64_t)(uintptr_t)g); } }
            hmixd(cmb_time());
            break; }
            /* fall through */
        default: {
            double x = cmb_random_normal(0.0, 1.0) + cmb_random_std_beta(2.0, 3.0) + (double)cmb_random_poisson(2.0) + cmb_random_lognormal(0.0, 0.25);
            x += cmb_random_std_gamma(W->near_shape) + (double)cmb_random_geometric(W->near_p);
            hmixd(cmb_random_std_gamma(0.002)); hmixd(cmb_random_exponential(1e-306));        /* results in the subnormal range are results too */
            W->acc[2] += x; hmixd(x);
            if (cmb_random_bernoulli(0.2)) { int v = (int)cmb_random_dice(0, W->ncust - 1); if (v != id && cmb_process_status(W->cust[v]) == CMB_PROCESS_RUNNING) { cmb_process_interrupt(W->cust[v], CMB_PROCESS_INTERRUPTED, cmb_random_dice(-1, 1)); hmix(1000 + (uint64_t)v); } }
            break; }
        }
    }
    hmix(0xE0D + (uint64_t)id); hmixd(cmb_time());
    return (void *)(intptr_t)id;
}
static void end_sim(void *s, void *o) { (void)s; (void)o; for (int k = 0; k < W->ncust; k++) cmb_process_stop(W->cust[k], NULL); cmb_event_queue_clear(); }

static void run_sim(uint64_t seed, uint32_t len, struct res *out)
{
    struct world w; memset(&w, 0, sizeof w); W = &w;
    cmb_logger_flags_off(CMB_LOGGER_INFO | CMB_LOGGER_WARNING);
    cmb_random_initialize(seed);
    w.h = 0xcbf29ce484222325ull ^ seed; w.steps = (int)len; w.ncust = 3 + (int)(seed % 8); w.lattice = (int)((seed >> 8) & 1);
    /* half of the trials build (part of) their model before they initialise their event queue: whatever the thread did before must not show */
    const bool early = ((seed >> 9) & 1) != 0;
    /* parameters that are close neighbours of what the neighbouring trials use (caches keyed on a parameter must compare exactly) */
    /* (neighbours at 25, and in [1, 2) where one ulp is no more than the machine epsilon: 3 * 0.4 is not 1.2) */
    { static const double nb[8] = { 25.0, 1.0 / (0.2 * 0.2), 25.000000000000004, 25.0 * (1.0 + 1e-12), 1.2, 3.0 * 0.4, 1.5, 1.5000000000000002 }; w.near_shape = nb[(seed >> 10) & 7]; w.near_p = ((seed >> 12) & 1) ? 0.3 : 0.30000000000000004; }
    /* drawn by the trial function itself (not in a process), first thing after seeding: the neighbouring shape, and results in the subnormal range */
    hmixd(cmb_random_std_gamma(w.near_shape)); hmix(cmb_random_geometric(w.near_p));
    for (int k = 0; k < 6; k++) hmixd(cmb_random_std_gamma(0.002));
    hmixd(cmb_random_exponential(1e-306)); hmixd(cmb_random_normal(0.0, 1e-308));
    if (early) { hmixd(cmb_time()); w.res = cmb_resource_create(); cmb_resource_initialize(w.res, "R"); cmb_resource_start_recording(w.res); }
    cmb_event_queue_initialize(0.0);
    if (!early) { w.res = cmb_resource_create(); cmb_resource_initialize(w.res, "R"); }
    w.pool = cmb_resourcepool_create(); cmb_resourcepool_initialize(w.pool, "P", 4);
    w.buf = cmb_buffer_create(); cmb_buffer_initialize(w.buf, "B", 10);
    w.cond = cmb_condition_create(); cmb_condition_initialize(w.cond, "C");
    cmb_condition_subscribe(w.cond, &w.res->guard); cmb_resourceguard_register(&w.pool->guard, &w.cond->guard);     /* observer tags are per-thread pool objects too */
    w.oq = cmb_objectqueue_create(); cmb_objectqueue_initialize(w.oq, "OQ", 8);
    w.pq = cmb_priorityqueue_create(); cmb_priorityqueue_initialize(w.pq, "PQ", 8);
    if (!early) cmb_resource_start_recording(w.res);
    for (int k = 0; k < w.ncust; k++) { char nm[16]; snprintf(nm, sizeof nm, "c%d", k); w.cust[k] = cmb_process_create(); cmb_process_initialize(w.cust[k], nm, customer, (void *)(intptr_t)k, w.lattice ? cmb_random_dice(0, 1) : cmb_random_dice(-2, 2)); cmb_process_start(w.cust[k]); }
    cmb_event_schedule(end_sim, NULL, NULL, 5.0 + 3.0 * (double)len, 0);
    uint64_t guard = 0;
    while (cmb_event_execute_next()) { if (++guard > 2000000) { hmix(0xBAD); break; } }
    cmb_resource_stop_recording(w.res);
    hmix(cmb_random_geometric(w.near_p)); hmixd(cmb_random_std_gamma(w.near_shape));       /* the last cached-parameter calls of this trial */
    struct cmb_wtdsummary ws; ws.ds.cookie = 0; cmb_wtdsummary_initialize(&ws);
    if (cmb_timeseries_count(cmb_resource_history(w.res)) > 1) { cmb_timeseries_summarize(cmb_resource_history(w.res), &ws); w.acc[3] = cmb_wtdsummary_mean(&ws); }
    out->hash = w.h; out->events = w.nev; for (int k = 0; k < 4; k++) out->fp[k] = w.acc[k];
    for (int k = 0; k < w.ncust; k++) { if (cmb_process_status(w.cust[k]) == CMB_PROCESS_RUNNING) cmb_process_stop(w.cust[k], NULL); cmb_process_terminate(w.cust[k]); cmb_process_destroy(w.cust[k]); }
    { void *g; while (cmb_objectqueue_length(w.oq) > 0 && w.ncust < 0) (void)g; }
    cmb_objectqueue_destroy(w.oq); cmb_priorityqueue_destroy(w.pq);
    cmb_condition_destroy(w.cond); cmb_buffer_destroy(w.buf); cmb_resourcepool_destroy(w.pool); cmb_resource_destroy(w.res);
    cmb_event_queue_terminate(); cmb_random_terminate();
    W = NULL;
}

/* ---- C12 inside concurrent trials: each trial owns an object queue and a priority queue, a producer and two consumers; every
 * delivery is compared with the trial's own model (the tag pools behind the queues are per-thread state: trials on other worker
 * threads must not be able to disturb them). Verdicts are collected in atomics and reported after the experiment has returned. */
static _Atomic int q_bad; static char q_msg[256]; static _Atomic uint64_t q_delivered;
struct qworld { struct cmb_objectqueue *oq; struct cmb_priorityqueue *pq; uint64_t nput, oq_next_get, oq_next_put; uint64_t pqm[64]; int64_t pqp[64]; int npq; uint64_t tid; int done; };
static _Thread_local struct qworld *QW;
static void q_fail(const char *what, uint64_t a, uint64_t b) { if (!atomic_exchange(&q_bad, 1)) snprintf(q_msg, sizeof q_msg, "trial %" PRIu64 ": %s (%" PRIu64 " vs %" PRIu64 ")", QW->tid, what, a, b); }
static void *q_producer(struct cmb_process *me, void *ctx)
{
    (void)me; (void)ctx; struct qworld *q = QW;
    for (uint64_t k = 0; k < q->nput && !q_bad; k++) {
        if (cmb_random_flip()) (void)cmb_process_hold(0.5 * (double)cmb_random_dice(0, 2));
        if (cmb_random_flip()) { uint64_t id = ++q->oq_next_put; if (cmb_objectqueue_put(q->oq, (void *)(uintptr_t)((q->tid << 32) | id)) != CMB_PROCESS_SUCCESS) q_fail("oq put failed", id, 0); }
        else { int64_t pr = cmb_random_dice(0, 3); uint64_t id = 0x80000000u + k; if (cmb_priorityqueue_put(q->pq, (void *)(uintptr_t)((q->tid << 32) | id), pr, NULL) != CMB_PROCESS_SUCCESS) q_fail("pq put failed", id, 0); else if (q->npq < 64) { q->pqm[q->npq] = id; q->pqp[q->npq] = pr; q->npq++; } }
        if (cmb_objectqueue_length(q->oq) != q->oq_next_put - q->oq_next_get) q_fail("oq length", cmb_objectqueue_length(q->oq), q->oq_next_put - q->oq_next_get);
        if (cmb_priorityqueue_length(q->pq) != (uint64_t)q->npq) q_fail("pq length", cmb_priorityqueue_length(q->pq), (uint64_t)q->npq);
    }
    q->done = 1;
    return NULL;
}
static void *q_consumer(struct cmb_process *me, void *ctx)
{
    (void)me; int which = (int)(intptr_t)ctx; struct qworld *q = QW;
    while (!q_bad) {
        void *o = NULL;
        if (which == 0) {
            if (cmb_objectqueue_get(q->oq, &o) != CMB_PROCESS_SUCCESS) break;
            uint64_t want = (q->tid << 32) | (q->oq_next_get + 1);
            if ((uint64_t)(uintptr_t)o != want) q_fail("object queue delivered another object than the next in put order", (uint64_t)(uintptr_t)o, want);
            q->oq_next_get++;
        } else {
            if (cmb_priorityqueue_get(q->pq, &o) != CMB_PROCESS_SUCCESS) break;
            int best = -1; for (int k = 0; k < q->npq; k++) if (best < 0 || q->pqp[k] > q->pqp[best]) best = k;     /* first of the highest priority */
            if (best < 0) { q_fail("priority queue delivered from an empty model", (uint64_t)(uintptr_t)o, 0); break; }
            uint64_t want = (q->tid << 32) | q->pqm[best];
            if ((uint64_t)(uintptr_t)o != want) q_fail("priority queue delivered another object than the first of the highest priority", (uint64_t)(uintptr_t)o, want);
            for (int k = best; k + 1 < q->npq; k++) { q->pqm[k] = q->pqm[k + 1]; q->pqp[k] = q->pqp[k + 1]; } q->npq--;
        }
        atomic_fetch_add(&q_delivered, 1);
        if (cmb_random_flip()) (void)cmb_process_hold(0.5 * (double)cmb_random_dice(0, 3));
    }
    return NULL;
}
static void q_end(void *s, void *o) { (void)s; (void)o; }
static void run_qsim(uint64_t seed, uint32_t len, uint64_t tid)
{
    struct qworld q; memset(&q, 0, sizeof q); QW = &q; q.tid = tid + 1; q.nput = 40 + 20 * (uint64_t)len;
    cmb_logger_flags_off(CMB_LOGGER_INFO | CMB_LOGGER_WARNING);
    cmb_random_initialize(seed);
    cmb_event_queue_initialize(0.0);
    q.oq = cmb_objectqueue_create(); cmb_objectqueue_initialize(q.oq, "OQ", 3 + seed % 300);
    q.pq = cmb_priorityqueue_create(); cmb_priorityqueue_initialize(q.pq, "PQ", 2 + seed % 7);
    struct cmb_process *pr[3];
    for (int k = 0; k < 3; k++) { pr[k] = cmb_process_create(); cmb_process_initialize(pr[k], k == 0 ? "prod" : "cons", k == 0 ? q_producer : q_consumer, (void *)(intptr_t)(k - 1), 0); cmb_process_start(pr[k]); }
    (void)q_end;
    uint64_t guard = 0;
    while (cmb_event_execute_next()) { if (++guard > 4000000) break; }
    if (q.done && !q_bad && (q.oq_next_get != q.oq_next_put || q.npq != 0)) q_fail("objects left undelivered at the end", q.oq_next_put - q.oq_next_get, (uint64_t)q.npq);
    for (int k = 0; k < 3; k++) { if (cmb_process_status(pr[k]) == CMB_PROCESS_RUNNING) cmb_process_stop(pr[k], NULL); cmb_process_terminate(pr[k]); cmb_process_destroy(pr[k]); }
    cmb_objectqueue_destroy(q.oq); cmb_priorityqueue_destroy(q.pq);
    cmb_event_queue_terminate(); cmb_random_terminate();
    QW = NULL;
}
static _Atomic int q_mode; static int big_frames; static int err_mode; static unsigned char err_trial[MAXTR];

/* ---- C17 inside concurrent trials: every trial fills a weighted summary of its own from its seed and reads variance, standard deviation,
 * skewness and kurtosis over and over; the values were computed by the same code in the calling thread before the experiment */
static double w_ref[MAXTR][4]; static _Atomic int w_bad; static char w_msg[200]; static _Atomic uint64_t w_reads;
static void w_fill(struct cmb_wtdsummary *ws, uint64_t seed) { vr_rng g = { seed | 1 }; int n = 20 + (int)(seed % 60); for (int k = 0; k < n; k++) { double x = vr_unit(&g) * 10.0 - (double)(seed % 7); double w = 0.1 + vr_unit(&g) * 3.0; cmb_wtdsummary_add(ws, x, w); } }
static void w_read(const struct cmb_wtdsummary *ws, double out[4]) { out[0] = cmb_wtdsummary_variance(ws); out[1] = cmb_wtdsummary_stddev(ws); out[2] = cmb_wtdsummary_skewness(ws); out[3] = cmb_wtdsummary_kurtosis(ws); }
static void w_trial(uint64_t i)
{
    struct cmb_wtdsummary ws; ws.ds.cookie = 0; cmb_wtdsummary_initialize(&ws); w_fill(&ws, tseed[i]);
    for (int rep = 0; rep < 300 && !w_bad; rep++) { double v[4]; w_read(&ws, v); atomic_fetch_add(&w_reads, 1);
        if (memcmp(v, w_ref[i], sizeof v) != 0 && !atomic_exchange(&w_bad, 1)) snprintf(w_msg, sizeof w_msg, "trial %" PRIu64 " read variance %.12g stddev %.12g skewness %.12g kurtosis %.12g of its own weighted summary; alone they are %.12g %.12g %.12g %.12g", i, v[0], v[1], v[2], v[3], w_ref[i][0], w_ref[i][1], w_ref[i][2], w_ref[i][3]); }
    FILE *nul = fopen("/dev/null", "w"); if (nul) { cmb_wtdsummary_print(&ws, nul, true); fclose(nul); }
}

/* ---- pollution: different per worker thread and per call, hence per schedule */
/* ---- C01 inside concurrent trials: every trial drives an event queue of its own through many short rounds of schedule / pattern count /
 * pattern cancel / is-scheduled / run-to-empty, mostly with 32 pending events or fewer, each round judged against what the trial itself scheduled */
static _Atomic int e_bad; static char e_msg[200]; static _Atomic uint64_t e_sweeps, e_events_run;
static _Thread_local uint64_t e_ran;
static void e_act0(void *s, void *o) { (void)s; (void)o; e_ran++; }
static void e_act1(void *s, void *o) { (void)s; (void)o; e_ran++; }
static void e_fail(uint64_t i, int round, const char *what, uint64_t a, uint64_t b) { if (!atomic_exchange(&e_bad, 1)) snprintf(e_msg, sizeof e_msg, "trial %" PRIu64 " round %d: %s (%" PRIu64 ", expected %" PRIu64 ")", i, round, what, a, b); }
static void e_trial(uint64_t i)
{
    vr_rng g = { tseed[i] | 1 }; char marks[4];
    cmb_logger_flags_off(CMB_LOGGER_INFO | CMB_LOGGER_WARNING);
    cmb_event_queue_initialize(0.0);
    int rounds = 150 + 25 * (int)tlen[i];
    for (int round = 0; round < rounds && !e_bad; round++) {
        int n = vr_chance(&g, 1, 8) ? 33 + (int)vr_below(&g, 60) : 2 + (int)vr_below(&g, 31); uint64_t h[96]; int subj[96]; uint64_t expected = 0;
        int victim = (int)vr_below(&g, 4);
        for (int k = 0; k < n; k++) { subj[k] = (int)vr_below(&g, 4); if (subj[k] == victim) expected++;
            h[k] = cmb_event_schedule((k & 1) ? e_act1 : e_act0, &marks[subj[k]], (void *)(uintptr_t)(k + 1), cmb_time() + (double)vr_below(&g, 5), (int64_t)vr_below(&g, 3)); }
        uint64_t cnt = cmb_event_pattern_count(CMB_ANY_ACTION, &marks[victim], CMB_ANY_OBJECT);
        if (cnt != expected) e_fail(i, round, "pattern count of one subject's events", cnt, expected);
        uint64_t got = cmb_event_pattern_cancel(CMB_ANY_ACTION, &marks[victim], CMB_ANY_OBJECT);
        if (got != expected) e_fail(i, round, "pattern cancel of one subject's events returned", got, expected);
        for (int k = 0; k < n; k++) if (cmb_event_is_scheduled(h[k]) != (subj[k] != victim)) { e_fail(i, round, subj[k] == victim ? "a cancelled event is still scheduled, index" : "an event of another subject is gone, index", (uint64_t)k, (uint64_t)n); break; }
        e_ran = 0; while (cmb_event_execute_next()) { }
        if (e_ran != (uint64_t)n - expected) e_fail(i, round, "events run after the sweep", e_ran, (uint64_t)n - expected);
        atomic_fetch_add(&e_sweeps, 1); atomic_fetch_add(&e_events_run, e_ran);
    }
    cmb_event_queue_terminate();
}

/* ---- C16 inside concurrent trials: a parameter sweep, each trial drawing from gamma / beta / chi-squared / PERT with its own parameters for
 * its whole length (so that whatever a sampler caches per parameter is never refreshed) while the other workers use other parameters.
 * Sample mean and variance are compared with the distribution's at 7.5 standard errors (false-alarm rate below 1e-13 per comparison). */
static _Atomic int g_bad; static char g_msg[300]; static _Atomic uint64_t g_draws, g_moment_tests;
static void g_judge(uint64_t i, const char *what, double p1, double p2, double m, double v, double mu, double var, double k4, uint64_t n)
{
    /* k4 = fourth central moment / var^2 (kurtosis), for the standard error of the sample variance */
    double se_m = sqrt(var / (double)n), se_v = var * sqrt((k4 - 1.0) / (double)n);
    atomic_fetch_add(&g_moment_tests, 2);
    if ((!(fabs(m - mu) <= 7.5 * se_m) || !(fabs(v - var) <= 7.5 * se_v + 1e-12 * var)) && !atomic_exchange(&g_bad, 1))
        snprintf(g_msg, sizeof g_msg, "trial %" PRIu64 ": %" PRIu64 " draws of %s(%g, %g) have mean %.6g (distribution %.6g, s.e. %.3g) and variance %.6g (distribution %.6g, s.e. %.3g)", i, n, what, p1, p2, m, mu, se_m, v, var, se_v);
}
static void g_trial(uint64_t i)
{
    static const double shapes[] = { 0.3, 0.5, 1.0, 1.5, 2.5, 4.0, 7.0, 12.0, 30.0, 100.0 };
    cmb_random_initialize(tseed[i] | 1);
    const uint64_t n = 20000 + 4000 * (uint64_t)tlen[i]; int fam = (int)(i % 4);
    double a = shapes[(i / 4) % 10], b = shapes[(i / 40 + 3 + i) % 10], sm = 0, sq = 0, c0 = 0;
    for (uint64_t k = 0; k < n; k++) {
        double x = fam == 0 ? cmb_random_gamma(a, 2.0) : fam == 1 ? cmb_random_std_beta(a, b) : fam == 2 ? cmb_random_chisquared(a * 2.0) : cmb_random_PERT(1.0, 1.0 + 4.0 * a / (a + 100.0) + 0.5, 6.0);
        if (k == 0) c0 = x;
        sm += x - c0; sq += (x - c0) * (x - c0);
    }
    double m = c0 + sm / (double)n, v = (sq - sm * sm / (double)n) / (double)(n - 1);
    atomic_fetch_add(&g_draws, n);
    if (fam == 0) g_judge(i, "gamma", a, 2.0, m, v, a * 2.0, a * 4.0, 3.0 + 6.0 / a, n);
    else if (fam == 1) { double s2 = a + b, var = a * b / (s2 * s2 * (s2 + 1.0)); double k4 = 3.0 + 6.0 * ((a - b) * (a - b) * (s2 + 1.0) - a * b * (s2 + 2.0)) / (a * b * (s2 + 2.0) * (s2 + 3.0)); g_judge(i, "beta", a, b, m, v, a / s2, var, k4, n); }
    else if (fam == 2) { double kk = a * 2.0; g_judge(i, "chi-squared", kk, 0.0, m, v, kk, 2.0 * kk, 3.0 + 12.0 / kk, n); }
    else { double lo = 1.0, mode = 1.0 + 4.0 * a / (a + 100.0) + 0.5, hi = 6.0; double al = 1.0 + 4.0 * (mode - lo) / (hi - lo), be = 1.0 + 4.0 * (hi - mode) / (hi - lo), s2 = al + be;
        double var01 = al * be / (s2 * s2 * (s2 + 1.0)); double k4 = 3.0 + 6.0 * ((al - be) * (al - be) * (s2 + 1.0) - al * be * (s2 + 2.0)) / (al * be * (s2 + 2.0) * (s2 + 3.0));
        g_judge(i, "PERT(1, mode, 6) with mode", mode, 0.0, m, v, lo + (hi - lo) * al / s2, var01 * (hi - lo) * (hi - lo), k4, n); }
    cmb_random_terminate();
}

/* ---- C18 inside concurrent trials: every trial fills a dataset of its own from its seed and computes autocorrelation coefficients, partial ones,
 * the median and a sorted copy over and over; the values were computed by the same code in the calling thread before the experiment */
#define A_LAGS 24
static double a_ref[MAXTR][2 * A_LAGS + 3]; static _Atomic int a_bad; static char a_msg[200]; static _Atomic uint64_t a_reads;
static void a_fill(struct cmb_dataset *d, uint64_t seed) { vr_rng g = { seed | 1 }; int n = 120 + (int)(seed % 400); double prev = 0; for (int k = 0; k < n; k++) { double e = vr_unit(&g) - 0.5; prev = 0.7 * prev + e; cmb_dataset_add(d, prev + (double)(seed % 5)); } }
static void a_read(const struct cmb_dataset *d, double out[2 * A_LAGS + 3]) { cmb_dataset_ACF(d, A_LAGS, out); cmb_dataset_PACF(d, A_LAGS, out + A_LAGS + 1, NULL); out[2 * A_LAGS + 2] = cmb_dataset_median(d); }
static void a_trial(uint64_t i)
{
    struct cmb_dataset d; memset(&d, 0, sizeof d); cmb_dataset_initialize(&d); a_fill(&d, tseed[i]);
    for (int rep = 0; rep < 60 && !a_bad; rep++) { double v[2 * A_LAGS + 3]; a_read(&d, v); atomic_fetch_add(&a_reads, 1);
        if (memcmp(v, a_ref[i], sizeof v) != 0 && !atomic_exchange(&a_bad, 1)) { int k = 0; while (k < 2 * A_LAGS + 2 && memcmp(&v[k], &a_ref[i][k], 8) == 0) k++;
            snprintf(a_msg, sizeof a_msg, "trial %" PRIu64 " computed %s %.12g for its own dataset; alone it is %.12g", i, k <= A_LAGS ? "an autocorrelation coefficient" : k < 2 * A_LAGS + 2 ? "a partial autocorrelation coefficient" : "the median", v[k], a_ref[i][k]); } }
    cmb_dataset_terminate(&d);
}

static _Thread_local uint64_t tl_calls; static _Atomic uint64_t n_unpolluted_caches;
static void pollute(void)
{
    uint64_t z = vr_mix((uint64_t)(uintptr_t)pthread_self() ^ (++tl_calls * 0x9e3779b97f4a7c15ull));
    vr_rng pr = { z };
    /* leave caches half-consumed */
    cmb_random_initialize(vr_next(&pr));
    int nf = 1 + (int)vr_below(&pr, 63); for (int k = 0; k < nf; k++) (void)cmb_random_flip();
    if (vr_chance(&pr, 1, 2)) { (void)cmb_random_std_gamma(1.0 + (double)vr_below(&pr, 9)); (void)cmb_random_geometric(0.11 + 0.1 * (double)vr_below(&pr, 8)); }
    else atomic_fetch_add(&n_unpolluted_caches, 1);    /* leave what the previous trial on this thread left (a neighbour of this trial's parameter) */
    /* logger flags flipped */
    if (vr_chance(&pr, 1, 2)) cmb_logger_flags_on(CMB_LOGGER_WARNING); else cmb_logger_flags_off(CMB_LOGGER_WARNING);
    /* heap scrambler: object addresses differ between runs */
    void *blk[24]; int nb = (int)vr_below(&pr, 24);
    for (int k = 0; k < nb; k++) blk[k] = malloc(16 + vr_below(&pr, 3000));
    for (int k = 0; k < nb; k += 2) free(blk[k]);
    static _Thread_local void *leak[8]; int li = (int)vr_below(&pr, 8); free(leak[li]); leak[li] = malloc(8 + vr_below(&pr, 500));
    for (int k = 1; k < nb; k += 2) free(blk[k]);
    /* tag pools grown: a throw-away mini simulation with many waiting processes */
    if (vr_chance(&pr, 1, 3)) { struct res dummy; run_sim(vr_next(&pr), 1 + (uint32_t)vr_below(&pr, 4), &dummy); }
}

/* ---- the calling thread's own pool objects across an experiment: a pilot simulation leaves 300 objects in an object queue (tags from the
 * thread-local static pool), the experiment runs, a second simulation takes them out again in order */
static struct cmb_objectqueue *pilot_q; static int pilot_bad;
static void *pilot_put(struct cmb_process *me, void *ctx) { (void)me; (void)ctx; for (uintptr_t k = 1; k <= 300; k++) if (cmb_objectqueue_put(pilot_q, (void *)(k * 8)) != CMB_PROCESS_SUCCESS) pilot_bad = 1; return NULL; }
static void *pilot_get(struct cmb_process *me, void *ctx) { (void)me; (void)ctx; for (uintptr_t k = 1; k <= 300; k++) { void *o = NULL; if (cmb_objectqueue_get(pilot_q, &o) != CMB_PROCESS_SUCCESS || o != (void *)(k * 8)) { pilot_bad = 2; break; } } return NULL; }
static void pilot_run(cmb_process_func *f)
{
    cmb_event_queue_initialize(0.0);
    struct cmb_process *p = cmb_process_create(); cmb_process_initialize(p, "pilot", f, NULL, 0); cmb_process_start(p);
    while (cmb_event_execute_next()) { }
    cmb_process_terminate(p); cmb_process_destroy(p); cmb_event_queue_terminate();
}

static size_t tagoff;               /* where in its element a trial leaves its tag: 0, or 8 when the first member is the trial's own function */
static unsigned char ran_via[MAXTR]; /* which of the per-trial functions was called for element i (1 or 2) */
static void trial_func(void *vp);
static void trial_func_a(void *vp) { unsigned char *p = vp; if (p >= arr && p < arr + stride * ntrials) ran_via[(uint64_t)(p - arr) / stride] |= 1; trial_func(vp); }
static void trial_func_b(void *vp) { unsigned char *p = vp; if (p >= arr && p < arr + stride * ntrials) ran_via[(uint64_t)(p - arr) / stride] |= 2; trial_func(vp); }
static void trial_func(void *vp)
{
    unsigned char *p = vp;
    if (p < arr || p >= arr + stride * ntrials || ((size_t)(p - arr) % stride) != 0) { __atomic_fetch_add(&bad_pointer, 1, __ATOMIC_SEQ_CST); return; }
    uint64_t i = (uint64_t)(p - arr) / stride;
    __atomic_fetch_add(&execcnt[i], 1, __ATOMIC_SEQ_CST);
    { uint64_t tag = i + 1; memcpy(p + tagoff, &tag, stride < 8 ? stride : 8); }     /* the element itself is tagged by its own trial */
    if (!in_seq) who_ran[i] = pthread_self();
    if (q_mode == 2) { w_trial(i); return; }
    if (q_mode == 3) { e_trial(i); return; }
    if (q_mode == 4) { g_trial(i); return; }
    if (q_mode == 5) { a_trial(i); return; }
    if (err_mode && err_trial[i]) {
        /* a trial that gives up: cmb_logger_error ends "the current replication thread only"; the other trials are the other workers' */
        if (!in_seq) { static FILE *nul; if (!nul) nul = fopen("/dev/null", "w"); if (nul) cmb_logger_error(nul, "trial %d gives up", (int)i); }
        return;
    }
    if (q_mode) { run_qsim(tseed[i], tlen[i], i); return; }
    pollute();
    if (big_frames && (tseed[i] & 3) == 0) {
        /* a trial function with a large automatic array (the header calls automatic variables safe): 2.4 MB of stack */
        volatile double obs[300000];
        for (int k = 0; k < 300000; k += 512) obs[k] = (double)(tseed[i] >> 40) + k;
        run_sim(tseed[i], tlen[i], in_seq ? &res_seq[i] : &res_par[i]);
        double acc = 0; for (int k = 0; k < 300000; k += 512) acc += obs[k] - k;
        if (acc != (double)(tseed[i] >> 40) * 586.0) __atomic_fetch_add(&bad_pointer, 1, __ATOMIC_SEQ_CST);
        return;
    }
    run_sim(tseed[i], tlen[i], in_seq ? &res_seq[i] : &res_par[i]);
}

void vr_case(uint64_t seed, uint64_t idx, int profile)
{
    cmb_logger_flags_off(CMB_LOGGER_INFO | CMB_LOGGER_WARNING);
    vr_rng r = vr_rng_make(seed, idx, 0xC19);
    static const uint64_t counts[] = { 1, 2, 15, 16, 17, 64, 200, 1000 };
    static const size_t sizes[] = { 8, 24, 72, 4096, 9, 13, 100 };
    ntrials = counts[vr_below(&r, profile == 1 ? 6 : 8)];
    if (profile == 1 && ntrials > 64) ntrials = 33;                 /* TSan build: keep it small */
    stride = sizes[vr_below(&r, 7)];
    big_frames = vr_chance(&r, 1, 4);
    if (profile == 0 && idx % 16 == 14) ntrials = vr_chance(&r, 1, 2) ? 64 : 200;       /* (the array is allocated further down) */
    err_mode = (profile == 0 && idx % 8 == 6 && ntrials >= 17);
    if (err_mode) { int ne = 0; for (uint64_t i = 0; i < ntrials; i++) { err_trial[i] = (ne < 5 && i >= 2 && vr_chance(&r, 1, 9)); ne += err_trial[i]; }
        /* every other such experiment: more trials give up than there are workers (the first 17 .. 60 % of them, the ones the workers start with) */
        if (idx % 16 == 14 && ntrials >= 40) { uint64_t k = 17 + vr_below(&r, ntrials * 6 / 10 - 16); ne = 0; for (uint64_t i = 0; i < ntrials; i++) { err_trial[i] = i < k; ne += err_trial[i]; } VR_CNT("experiments_with_more_leavers_than_workers"); }
        if (ne) VR_CNT("experiments_with_trials_that_end_their_worker"); VR_ADD("trials_ending_their_worker", ne); }
    bool pinned = false; cpu_set_t old_mask;
    if (profile == 0 && idx % 8 == 5) {
        /* the whole program confined to one processor (taskset -c 0, a one-core container): every trial still runs, on however many workers */
        if (sched_getaffinity(0, sizeof old_mask, &old_mask) == 0) { cpu_set_t one; CPU_ZERO(&one); int c = vr_chance(&r, 1, 2) ? 0 : (int)vr_below(&r, 16); if (!CPU_ISSET(c, &old_mask)) c = 0; CPU_SET(c, &one); if (sched_setaffinity(0, sizeof one, &one) == 0) { pinned = true; VR_CNT("experiments_confined_to_one_processor"); } }
    }
    if (profile == 0 && !pinned && idx % 8 == 3) {
        /* a trial array beyond 4 GiB: few elements of 1 GiB each (only the first bytes of each are ever touched) */
        ntrials = 5 + vr_below(&r, 3); stride = (size_t)1 << 30; big_frames = 0; VR_CNT("experiments_with_trial_array_beyond_4GiB");
    }
    arr = calloc(ntrials + 2, stride);
    if (!arr) { vr_inconclusive("cannot allocate the trial array"); return; }
    int durmix = (int)vr_below(&r, 3);     /* 0 all short, 1 wide spread, 2 one very long first */
    for (uint64_t i = 0; i < ntrials; i++) { tseed[i] = vr_next(&r); tlen[i] = durmix == 0 ? 2 : (uint32_t)(1 + vr_below(&r, durmix == 1 ? 40 : 6)); }
    if (durmix == 2) tlen[0] = 150;
    if (profile == 1) for (uint64_t i = 0; i < ntrials; i++) if (tlen[i] > 12) tlen[i] = 12;
    vr_fp_mix(ntrials); vr_fp_mix(stride); vr_fp_mix((uint64_t)durmix);
    if (profile == 2) {
        /* C12 under concurrent trials: twice, so that the second experiment runs on pools the first one's threads initialised */
        q_mode = 1; if (ntrials > 200) ntrials = 200;
        for (int round = 0; round < 2 && !q_bad; round++) { for (uint64_t i = 0; i < ntrials; i++) execcnt[i] = 0; cimba_run_experiment(arr, ntrials, stride, trial_func); }
        if (q_bad) vr_violation("C12/concurrent-trials", "%s", q_msg);
        VR_ADD("queue_trials", 2 * ntrials); VR_ADD("objects_delivered_in_concurrent_trials", q_delivered); VR_CNT("queue_experiments");
        vr_mark_nontrivial(); free(arr); return;
    }
    if (profile == 3) {
        q_mode = 2; if (ntrials > 200) ntrials = 200;
        for (uint64_t i = 0; i < ntrials; i++) { struct cmb_wtdsummary ws; ws.ds.cookie = 0; cmb_wtdsummary_initialize(&ws); w_fill(&ws, tseed[i]); w_read(&ws, w_ref[i]); }
        cimba_run_experiment(arr, ntrials, stride, trial_func);
        if (w_bad) vr_violation("C17/concurrent-trials", "%s", w_msg);
        VR_ADD("weighted_summary_trials", ntrials); VR_ADD("weighted_statistics_read_in_concurrent_trials", w_reads); VR_CNT("weighted_summary_experiments");
        vr_mark_nontrivial(); free(arr); return;
    }
    if (profile == 4) {
        q_mode = 3; if (ntrials > 200) ntrials = 200;
        cimba_run_experiment(arr, ntrials, stride, trial_func);
        if (e_bad) vr_violation("C01/concurrent-trials", "%s", e_msg);
        VR_ADD("event_queue_trials", ntrials); VR_ADD("pattern_sweeps_in_concurrent_trials", e_sweeps); VR_ADD("events_run_in_concurrent_trials", e_events_run); VR_CNT("event_queue_experiments");
        vr_mark_nontrivial(); free(arr); return;
    }
    if (profile == 6) {
        /* C12, a queue in use for a long time: one low-priority object stays queued while 2^31 (+-) others pass through; an object of the same
         * priority put after that must still come after it (handles are compared as the 64-bit numbers they are). Two to three minutes. */
        free(arr);
        static const uint64_t passes[] = { (1ull << 31) + 7, (1ull << 31) - 3, (1ull << 32) + 5 };
        uint64_t np = passes[idx % 3]; if (idx >= 3) np = (1ull << 16) + idx;
        /* the queue also outlives a simulation run: the first object is put while the clock of one run reads 50, the last one after that run
         * is over and the clock of the next reads 0 (or -100): put order is what counts, not the clock */
        cmb_event_queue_initialize(50.0);
        struct cmb_priorityqueue *pq = cmb_priorityqueue_create(); cmb_priorityqueue_initialize(pq, "long-lived", CMB_UNLIMITED);
        static int early, late, other; uint64_t he = 0, hl = 0, h = 0; void *o = NULL;
        if (cmb_priorityqueue_put(pq, &early, 0, &he) != CMB_PROCESS_SUCCESS) { vr_inconclusive("put failed"); return; }
        for (uint64_t k = 0; k < np && vr_nviol == 0; k++) {
            if (cmb_priorityqueue_put(pq, &other, 5, &h) != CMB_PROCESS_SUCCESS || cmb_priorityqueue_get(pq, &o) != CMB_PROCESS_SUCCESS || o != (void *)&other)
                vr_violation("C12/pq-order", "pass %" PRIu64 ": an object of priority 5 put into a queue holding one of priority 0 was not the one delivered", k);
            if ((k & 0xfffff) == 0 && cmb_priorityqueue_length(pq) != 1) vr_violation("C12/pq-length", "pass %" PRIu64 ": length %" PRIu64, k, cmb_priorityqueue_length(pq));
        }
        if (vr_nviol == 0) {
            cmb_event_queue_terminate(); cmb_event_queue_initialize(idx % 2 ? -100.0 : 0.0); VR_CNT("queues_kept_across_a_change_of_clock");
            if (cmb_priorityqueue_put(pq, &late, 0, &hl) != CMB_PROCESS_SUCCESS) { vr_inconclusive("put failed"); return; }
            uint64_t pe = cmb_priorityqueue_position(pq, he), pl = cmb_priorityqueue_position(pq, hl);
            if (pe != 1 || pl != 2) vr_violation("C12/pq-position", "after %" PRIu64 " objects have passed through: the object queued before them (handle %" PRIu64 ") is at position %" PRIu64 ", the one of the same priority put after them (handle %" PRIu64 ") at %" PRIu64, np, he, pe, hl, pl);
            else if (cmb_priorityqueue_get(pq, &o) != CMB_PROCESS_SUCCESS || o != (void *)&early) vr_violation("C12/pq-order", "after %" PRIu64 " objects have passed through, equal priorities are no longer delivered in put order", np);
        }
        VR_ADD("objects_passed_through_a_long_lived_queue", np); VR_CNT("long_lived_queues");
        vr_mark_nontrivial(); if (vr_nviol == 0) { cmb_priorityqueue_destroy(pq); cmb_event_queue_terminate(); } return;
    }
    if (profile == 7) {
        q_mode = 5; if (ntrials > 200) ntrials = 200;
        for (uint64_t i = 0; i < ntrials; i++) { struct cmb_dataset d; memset(&d, 0, sizeof d); cmb_dataset_initialize(&d); a_fill(&d, tseed[i]); a_read(&d, a_ref[i]); cmb_dataset_terminate(&d); }
        cimba_run_experiment(arr, ntrials, stride, trial_func);
        if (a_bad) vr_violation("C18/concurrent-trials", "%s", a_msg);
        VR_ADD("correlation_trials", ntrials); VR_ADD("coefficient_sets_computed_in_concurrent_trials", a_reads); VR_CNT("correlation_experiments");
        vr_mark_nontrivial(); free(arr); return;
    }
    if (profile == 5) {
        q_mode = 4; if (ntrials > 200) ntrials = 200;
        (void)cmb_random_std_gamma(2.5);       /* the calling thread has its own history */
        cimba_run_experiment(arr, ntrials, stride, trial_func);
        if (g_bad) vr_violation("C16/concurrent-trials", "%s", g_msg);
        VR_ADD("sampler_trials", ntrials); VR_ADD("draws_in_concurrent_trials", g_draws); VR_ADD("moments_compared_in_concurrent_trials", g_moment_tests); VR_CNT("sampler_experiments");
        vr_mark_nontrivial(); free(arr); return;
    }
    bool seq_first = vr_chance(&r, 1, 2);
    if (seq_first) { in_seq = 1; for (uint64_t i = 0; i < ntrials; i++) trial_func(arr + i * stride); in_seq = 0; for (uint64_t i = 0; i < ntrials; i++) { memset(arr + i * stride, 0, 8 < stride ? 8 : stride); execcnt[i] = 0; } }
    const bool pilot = profile == 0 && idx % 8 == 1;
    if (pilot) { pilot_bad = 0; pilot_q = cmb_objectqueue_create(); cmb_objectqueue_initialize(pilot_q, "pilot", CMB_UNLIMITED); pilot_run(pilot_put); }
    /* the documented second form: no common function, each element starts with the function for its trial */
    const bool own_funcs = profile == 0 && idx % 8 == 2 && stride % 8 == 0 && stride >= 24;
    if (own_funcs) { tagoff = 8; for (uint64_t i = 0; i < ntrials; i++) { cimba_trial_func *f = (tseed[i] & 16) ? trial_func_a : trial_func_b; memcpy(arr + i * stride, &f, sizeof f); ran_via[i] = 0; } VR_CNT("experiments_with_a_function_per_trial"); }
    cimba_run_experiment(arr, ntrials, stride, own_funcs ? NULL : trial_func);
    if (own_funcs) for (uint64_t i = 0; i < ntrials && vr_nviol == 0; i++) { unsigned char want = (tseed[i] & 16) ? 1 : 2; if (ran_via[i] != want) vr_violation("C19/wrong-trial-function", "trial %" PRIu64 " of %" PRIu64 " stores function %c as its first member; called: %s", i, ntrials, want == 1 ? 'a' : 'b', ran_via[i] == 0 ? "neither" : ran_via[i] == 3 ? "both" : "the other one"); }
    if (pilot) {
        if (!pilot_bad && cmb_objectqueue_length(pilot_q) != 300) pilot_bad = 3;
        if (!pilot_bad) pilot_run(pilot_get);
        if (pilot_bad) vr_violation("C20/objects-held-across-an-experiment", "300 objects left in an object queue by the calling thread before cimba_run_experiment: afterwards %s", pilot_bad == 1 ? "(the puts already failed)" : pilot_bad == 3 ? "the queue reports another length" : "they do not come out as they went in");
        if (!pilot_bad) cmb_objectqueue_destroy(pilot_q);
        VR_CNT("experiments_with_caller_objects_held_across");
    }
    /* returned: every trial must have been executed exactly once, with its own element */
    if (bad_pointer) vr_violation("C19/foreign-pointer", "trial function was called %d time(s) with a pointer that is not an element of the trial array", bad_pointer);
    for (uint64_t i = 0; i < ntrials && vr_nviol == 0; i++) {
        uint64_t c = execcnt[i], tag; memcpy(&tag, arr + i * stride + tagoff, 8);
        if (c == 1 && tag != i + 1) vr_violation("C19/foreign-pointer", "element %" PRIu64 " carries tag %" PRIu64, i, tag);
        if (c != 1) vr_violation(c == 0 ? "C19/trial-not-run" : "C19/trial-run-twice", "after cimba_run_experiment returned, trial %" PRIu64 " of %" PRIu64 " has execution count %" PRIu64, i, ntrials, c);
    }
    { uint64_t c; memcpy(&c, arr + ntrials * stride, 8); if (c != 0) vr_violation("C19/overrun", "element past the end of the trial array was touched"); }
    if (!seq_first && vr_nviol == 0) { in_seq = 1; for (uint64_t i = 0; i < ntrials; i++) trial_func(arr + i * stride); in_seq = 0; }
    /* schedule statistics */
    pthread_t seen[64]; int nseen = 0; uint64_t per[64] = { 0 }; uint64_t asg = 0;
    for (uint64_t i = 0; i < ntrials; i++) { int k; for (k = 0; k < nseen; k++) if (pthread_equal(seen[k], who_ran[i])) break; if (k == nseen && nseen < 64) seen[nseen++] = who_ran[i]; if (k < 64) per[k]++; asg = asg * 31 + (uint64_t)k; }
    uint64_t mx = 0, mnn = ~0ull; for (int k = 0; k < nseen; k++) { if (per[k] > mx) mx = per[k]; if (per[k] < mnn) mnn = per[k]; }
    vr_fp_mix(asg);
    VR_ADD("trials", ntrials); VR_CNT("experiments"); VR_ADD("trials_started_on_the_previous_trials_parameter_caches", n_unpolluted_caches); VR_MAX("max_workers_used", nseen); VR_MAX("max_trials_on_one_worker", mx);
    if (nseen > 1) VR_CNT("experiments_on_multiple_workers");
    if (ntrials < 16) VR_CNT("experiments_fewer_trials_than_cores"); else if (ntrials == 16) VR_CNT("experiments_trials_equal_cores"); else VR_CNT("experiments_more_trials_than_cores");
    /* bit-identical results */
    for (uint64_t i = 0; i < ntrials && vr_nviol == 0; i++) {
        VR_ADD("simulated_process_steps", res_seq[i].events);
        if (memcmp(&res_par[i], &res_seq[i], sizeof(struct res)) != 0)
            vr_violation("C19/result-differs", "trial %" PRIu64 "/%" PRIu64 " (seed %#" PRIx64 ", len %u): parallel hash %#" PRIx64 " events %" PRIu64 " fp %.17g/%.17g | sequential hash %#" PRIx64 " events %" PRIu64 " fp %.17g/%.17g",
                         i, ntrials, tseed[i], tlen[i], res_par[i].hash, res_par[i].events, res_par[i].fp[2], res_par[i].fp[3], res_seq[i].hash, res_seq[i].events, res_seq[i].fp[2], res_seq[i].fp[3]);
    }
    if (pinned) sched_setaffinity(0, sizeof old_mask, &old_mask);
    vr_mark_nontrivial();
    if (idx % 7 == 0) vr_sample("trials=%" PRIu64 " element_size=%zu duration_mix=%d seq_first=%d workers_used=%d trials/worker max=%" PRIu64 " min=%" PRIu64, ntrials, stride, durmix, (int)seq_first, nseen, mx, mnn);
    free(arr);
}

int main(int argc, char **argv) { return vr_main(argc, argv); }
