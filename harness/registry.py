"""Property -> engines/jobs table used by bin/check.

job fields: name, engine, flavour (rel|asan|tsan), profile, quick, thorough (case
counts), timeout (s per case), chunk (max cases per runner process), base (first
case index), extra (argv), thorough_only.
"""

ENG = {
    "hhfuzz": {"name": "hhfuzz", "sources": ["hhfuzz.c"]},
    "poolfuzz": {"name": "poolfuzz", "sources": ["poolfuzz.c"]},
}


def J(name, engine, flavour, profile, quick, thorough, **kw):
    d = dict(name=name, engine=engine, flavour=flavour, profile=profile, quick=quick, thorough=thorough)
    d.update(kw)
    return d


PROPS = {}

_kinds = ["event", "waitlist", "holders", "objprio", "default"]
PROPS["C02"] = {
    "engines": ENG,
    "jobs": (
        [J(f"hh-{k}", "hhfuzz", "rel", i, 2000, 60000) for i, k in enumerate(_kinds)]
        + [J(f"hh-churn-{k}", "hhfuzz", "rel", 10 + i, 300, 6000) for i, k in enumerate(_kinds)]
        + [J(f"hh-long-{k}", "hhfuzz", "rel", 20 + i, 20, 2000, thorough_only=False) for i, k in enumerate(_kinds)]
        + [J(f"hh-asan-{k}", "hhfuzz", "asan", i, 400, 6000) for i, k in enumerate(_kinds)]
    ),
    "rule": ("random operation histories (enqueue with generated/supplied/colliding/re-inserted keys, dequeue, peek, remove, "
             "reprioritize, item+payload mutation, is_enqueued, dkey/ikey, pattern find/count/cancel, clear, reset) against a flat "
             "reference, with the structural walker after every op; one case = one history on one real comparator and initial "
             "exponent 1..6; distinct = FNV fingerprint of (comparator, exponent, key mode, op-code sequence); non-trivial = at "
             "least one capacity doubling and at least one remove-by-key or reprioritize"),
    "headline": ["ops", "growths", "op_remove", "op_reprioritize", "collision_keys", "reinserted_keys",
                 "pattern_ops_multi_match", "max_tombstone_permille", "saw_no_never_used_slot", "cases_3plus_growths", "drained"],
    "min_observed": {"quick": {"growths": 1000, "collision_keys": 1000, "pattern_ops_multi_match": 500},
                     "thorough": {"growths": 10000, "collision_keys": 10000}},
    "assumptions": ["keys supplied by the caller are unique among live entries and non-zero (header contract)",
                    "mixed generated/supplied histories use supplied keys >= 2^40 (DESIGN.md section 8)",
                    "ties the specification leaves open (equal priority and entry time in a waiting list; equal dsortkey under the "
                    "default order) accept any tied minimum"],
}

PROPS["C20"] = {
    "engines": ENG,
    "jobs": [
        J("pool-geom-asan", "poolfuzz", "asan", 0, 300, 20000),
        J("pool-64chunks-asan", "poolfuzz", "asan", 1, 150, 15000, timeout=120),
        J("pool-static-asan", "poolfuzz", "asan", 2, 100, 5000),
        J("pool-geom-rel", "poolfuzz", "rel", 0, 300, 20000),
        J("pool-64chunks-rel", "poolfuzz", "rel", 1, 150, 15000, timeout=120),
        J("pool-static-rel", "poolfuzz", "rel", 2, 100, 5000),
    ],
    "rule": ("alloc/free histories (ramp to N live, random churn, partial drain, re-ramp, drain) on dynamic pools of object size "
             "{8..4104} x objects-per-chunk {1,3,64,256,page-exact} with N chosen to cross 1,2,3,63,64,65,66,128,129,130 chunks, and on "
             "the library's thread-local static tag pools in the main thread and in short-lived threads; shadow map of live objects "
             "with per-object fill patterns audited on free and at audit points (alignment, overlap, inside-a-chunk, contents); "
             "distinct = fingerprint of (profile, geometry, chunk target, ramp size); non-trivial = more than one chunk"),
    "headline": ["allocs", "frees", "audits", "expansions", "max_chunks", "max_live", "chunk_list_growths", "cases_crossing_64_chunks",
                 "static_pool_main_thread", "static_pool_worker_thread", "pools_destroyed"],
    "min_observed": {"quick": {"cases_crossing_64_chunks": 50, "chunk_list_growths": 20}, "thorough": {"cases_crossing_64_chunks": 2000}},
    "assumptions": ["object sizes are multiples of 8 (documented precondition)",
                    "ASan build: hook H3 poisons objects on the free list, so a touch of a freed object or a doubly handed-out object is an ASan report"],
}

# --------------------------------------------------------------------------
# Texts for MANIFEST.json (bin/gen_manifest.py)
MANIFEST_TEXT = {
    "C02": {
        "level": ("Differential exploration: tens of thousands of random operation histories per run on the real hashheap with each of "
                  "the five real comparators, compared op-by-op with a flat reference and a structural walker; says the property held "
                  "on the histories explored (counts in evidence), not for all histories."),
        "note": ("Trusts the 60-line reference model and the specified orders encoded in hhfuzz.c:spec_cmp; caller-supplied keys are "
                 "unique and non-zero; ASan/UBSan build re-runs a slice of the same corpus."),
        "technique": "runtime monitoring: randomized operation-history differential vs reference model + structural invariant walker, also under ASan/UBSan",
        "design_ref": "DESIGN.md 4/C02",
    },
    "C20": {
        "level": ("Exploration of allocation histories on the real pool code with a shadow map (alignment, disjointness, chunk "
                  "membership, content stability) under AddressSanitizer with free-list poisoning, across the chunk-list growth "
                  "points; held on the histories run."),
        "note": "Trusts the shadow map in poolfuzz.c and ASan+hook H3; population sizes up to ~130 chunks / 600k objects.",
        "technique": "runtime monitoring: shadow-map oracle over random alloc/free histories + AddressSanitizer with pool poisoning hook",
        "design_ref": "DESIGN.md 4/C20",
    },
}
NOT_APPLICABLE = {}
