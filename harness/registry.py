"""Property -> engines/jobs table used by bin/check.

job fields: name, engine, flavour (rel|asan|tsan), profile, quick, thorough (case
counts), timeout (s per case), chunk (max cases per runner process), base (first
case index), extra (argv), thorough_only.
"""

ENG = {
    "hhfuzz": {"name": "hhfuzz", "sources": ["hhfuzz.c"]},
    "poolfuzz": {"name": "poolfuzz", "sources": ["poolfuzz.c"]},
    "rngdet": {"name": "rngdet", "sources": ["rngdet.c"]},
    "rngbulk": {"name": "rngbulk", "sources": ["rngbulk.c"], "extra_cflags": "-O2"},
    "rngsamp": {"name": "rngsamp", "sources": ["rngsamp.c"]},
    "simfuzz": {"name": "simfuzz", "sources": ["simfuzz.c"], "extra_cflags": "-Wno-format-truncation"},
    "expcheck": {"name": "expcheck", "sources": ["expcheck.c"]},
    "evfuzz": {"name": "evfuzz", "sources": ["evfuzz.c"]},
    "corofuzz": {"name": "corofuzz", "sources": ["corofuzz.c", "probe.S"]},
    "statcheck": {"name": "statcheck", "sources": ["statcheck.c"], "extra_ldflags": "-lquadmath"},
}


# engines that only make terminating library calls: a case that does not finish is a violation (key "hang")
HANG_IS_VIOLATION = {"hhfuzz", "poolfuzz", "rngdet", "statcheck", "evfuzz", "corofuzz"}


def J(name, engine, flavour, profile, quick, thorough, **kw):
    d = dict(name=name, engine=engine, flavour=flavour, profile=profile, quick=quick, thorough=thorough)
    d.update(kw)
    if engine in HANG_IS_VIOLATION:
        d["extra"] = list(d.get("extra", [])) + ["--hang-violation"]
        d.setdefault("timeout", 30)
    return d


PROPS = {}

_kinds = ["event", "waitlist", "holders", "objprio", "default"]
PROPS["C02"] = {
    "engines": ENG,
    "jobs": (
        [J(f"hh-{k}", "hhfuzz", "rel", i, 2000, 300000, chunk=2500) for i, k in enumerate(_kinds)]
        + [J(f"hh-churn-{k}", "hhfuzz", "rel", 10 + i, 300, 6000) for i, k in enumerate(_kinds)]
        + [J(f"hh-long-{k}", "hhfuzz", "rel", 20 + i, 20, 2000, thorough_only=False) for i, k in enumerate(_kinds)]
        + [J(f"hh-asan-{k}", "hhfuzz", "asan", i, 400, 6000) for i, k in enumerate(_kinds)]
    ),
    "rule": ("random operation histories (enqueue with generated/supplied/colliding/re-inserted keys, dequeue, peek, remove, "
             "reprioritize, item+payload mutation, is_enqueued, dkey/ikey, pattern find/count/cancel, clear, reset) against a flat "
             "reference, with the structural walker after every op; one case = one history on one real comparator and initial "
             "exponent 1..6; distinct = FNV fingerprint of (comparator, exponent, key mode, op-code sequence); non-trivial = at "
             "least one capacity doubling and at least one remove-by-key or reprioritize"),
    "headline": ["ops", "growths", "op_remove", "op_reprioritize", "collision_keys", "reinserted_keys",
                 "pattern_ops_multi_match", "max_tombstone_permille", "saw_no_never_used_slot", "cases_3plus_growths", "drained"],
    "min_observed": {"quick": {"growths": 1000, "collision_keys": 1000, "pattern_ops_multi_match": 500},
                     "thorough": {"growths": 10000, "collision_keys": 10000}},
    "assumptions": ["keys supplied by the caller are unique among live entries and non-zero (header contract)",
                    "mixed generated/supplied histories use supplied keys >= 2^40 (DESIGN.md section 8)",
                    "ties the specification leaves open (equal priority and entry time in a waiting list; equal dsortkey under the "
                    "default order) accept any tied minimum"],
}

PROPS["C19"] = {
    "engines": ENG,
    "jobs": [
        J("exp-rel", "expcheck", "rel", 0, 40, 20000, timeout=300, chunk=4),
        J("exp-tsan", "expcheck", "tsan", 1, 12, 300, timeout=600, chunk=2),
    ],
    "rule": ("one case = one experiment: trial count in {1,2,15,16,17,64,200,1000}, element size in {8,24,72,4096,9,13,100}, duration mix "
             "(all short / wide spread / one very long first), trial body = seeded simulation (3-10 processes, resource, pool, buffer, "
             "condition with timeout, interrupts, 12 samplers incl. flip/gamma/geometric caches, resource history summarised), preceded by "
             "a pollution step keyed on the worker thread id and call count (RNG caches left half-consumed, logger mask flipped, heap "
             "scrambled, tag pools grown); after cimba_run_experiment returns: execution count == 1 and own-element tag for every trial, "
             "no foreign pointer, and every result byte (trace hash, event count, 4 doubles) equal to the sequential run of the same "
             "trials in the main thread (run before or after); distinct = fingerprint of (count, size, mix, trial->worker assignment)"),
    "headline": ["experiments", "trials", "simulated_process_steps", "experiments_on_multiple_workers", "trials_started_on_the_previous_trials_parameter_caches", "max_workers_used",
                 "max_trials_on_one_worker", "experiments_fewer_trials_than_cores", "experiments_trials_equal_cores", "experiments_more_trials_than_cores"],
    "min_observed": {"quick": {"experiments": 40, "trials": 1000, "experiments_on_multiple_workers": 20}},
    "assumptions": ["trial functions seed the generator from their own parameters (as the property states)",
                    "schedules are sampled by repetition; the assignment fingerprint shows how many distinct trial->worker maps were seen",
                    "TSan build: any ThreadSanitizer report in a child is a violation"],
}
PROPS["C20"] = {
    "engines": ENG,
    "jobs": [
        J("pool-geom-asan", "poolfuzz", "asan", 0, 300, 20000),
        J("pool-64chunks-asan", "poolfuzz", "asan", 1, 150, 15000, timeout=120),
        J("pool-static-asan", "poolfuzz", "asan", 2, 100, 5000),
        J("pool-geom-rel", "poolfuzz", "rel", 0, 300, 20000),
        J("pool-64chunks-rel", "poolfuzz", "rel", 1, 150, 15000, timeout=120),
        J("pool-static-rel", "poolfuzz", "rel", 2, 100, 5000),
    ],
    "rule": ("alloc/free histories (ramp to N live, random churn, partial drain, re-ramp, drain) on dynamic pools of object size "
             "{8..4104} x objects-per-chunk {1,3,64,256,page-exact} with N chosen to cross 1,2,3,63,64,65,66,128,129,130 chunks, and on "
             "the library's thread-local static tag pools in the main thread and in short-lived threads; shadow map of live objects "
             "with per-object fill patterns audited on free and at audit points (alignment, overlap, inside-a-chunk, contents); "
             "distinct = fingerprint of (profile, geometry, chunk target, ramp size); non-trivial = more than one chunk"),
    "headline": ["allocs", "frees", "audits", "expansions", "max_chunks", "max_live", "chunk_list_growths", "cases_crossing_64_chunks", "pools_reinitialised", "pools_terminated_with_objects_out",
                 "static_pool_main_thread", "static_pool_worker_thread", "pools_destroyed"],
    "min_observed": {"quick": {"cases_crossing_64_chunks": 50, "chunk_list_growths": 20}, "thorough": {"cases_crossing_64_chunks": 2000}},
    "assumptions": ["object sizes are multiples of 8 (documented precondition)",
                    "ASan build: hook H3 poisons objects on the free list, so a touch of a freed object or a doubly handed-out object is an ASan report"],
}

PROPS["C15"] = {
    "engines": ENG,
    "jobs": [
        J("rng-raw-reference", "rngdet", "rel", 0, 40, 2000),
        J("rng-pollution", "rngdet", "rel", 1, 2000, 600000, chunk=2500),
        J("rng-threads-tsan", "rngdet", "tsan", 2, 150, 5000, timeout=120),
        J("rng-2^32-seedings", "rngdet", "rel", 3, 3, 6, timeout=2400, chunk=1),
    ],
    "rule": ("(i) raw 64-bit stream of 50 seeds per case (corner seeds 0,1,2^63,2^64-1,DUMMY + random) x 256 outputs against an independent "
             "splitmix64->sfc64(+20 discards) reference; (ii) pollution differential: a random call program S (40-200 calls over all 36 "
             "sampling functions, random admissible parameters) run after seeding in a fresh thread, in a thread that first ran a random "
             "history H ending half-way through cached state (1-63 coin flips, another gamma shape, another geometric p) and re-seeded, in "
             "the main thread after a history, concurrently with 1-15 other threads, as each of 1-24 trials of cimba_run_experiment and in the "
             "calling thread after that experiment; every returned bit pattern must be identical; one call in eight takes a parameter from "
             "the far end of its range (shape 0.002, scale 1e-306: subnormal results); half of the histories end on a gamma shape / geometric "
             "p that is a close neighbour (1 ulp .. 1e-6 relative) of the one the seeded program uses; "
             "distinct = fingerprint of S's function sequence and H's tail; all cases non-trivial"),
    "headline": ["seeds_vs_reference", "raw_outputs_compared", "pairs_fresh_vs_polluted", "pairs_fresh_vs_main_thread",
                 "pairs_solo_vs_concurrent", "pairs_fresh_vs_experiment_trial", "pairs_fresh_vs_caller_after_experiment", "calls_with_extreme_parameters",
                 "histories_ending_on_a_neighbouring_gamma_shape", "histories_ending_on_a_neighbouring_geometric_p",
                 "concurrent_threads", "max_threads_at_once", "S_calls", "H_calls", "flip", "std_gamma", "geometric"],
    "min_observed": {"quick": {"pairs_fresh_vs_polluted": 1000, "pairs_solo_vs_concurrent": 1000, "seeds_vs_reference": 1000, "pairs_fresh_vs_experiment_trial": 1000,
                               "calls_with_extreme_parameters": 1000, "histories_ending_on_a_neighbouring_gamma_shape": 300}},
    "assumptions": ["seeds are sampled (corner values + random), relying on the generator having no seed-dependent control flow",
                    "TSan build runs the thread-heavy profile; a ThreadSanitizer report in any child is a violation"],
}

PROPS["C16"] = {
    "engines": ENG,
    "jobs": [
        dict(name="rng-dist", engine="rngsamp", flavour="rel", profile=0, quick=1, thorough=1, script="rngdist.py"),
        dict(name="rng-bulk", engine="rngbulk", flavour="rel", profile=0, quick=1, thorough=1, script="rngbulk.py"),
    ],
    "rule": ("one case = one (sampler, parameter set) of a ~170-entry grid covering every distribution of the header incl. the boundary "
             "values named in the property (p=1, p near 0/1, probability vectors summing to one only within 1e-3, shapes 0.05..50, n=1, "
             "min~max, build-time ziggurat and alias tables); N seeded draws (2e5 quick / 2e6 thorough; ziggurat samplers 1e7 / 4e7) "
             "checked draw-by-draw against the support predicate and by KS / chi-square / mean z-test / tail-mass tests against scipy "
             "reference distributions with the two-stage p<1e-5 then p<1e-7 rule; distinct = distinct parameter sets; all non-trivial. "
             "Bulk job: the table-driven samplers (std_exponential, exponential, std_normal, normal) drawn 2e9 times each (quick; 3.2e10 "
             "thorough) on all cores, binned at 1/128 in C and judged here: chi-square fine and coarse, exact binomial tests of the mass in "
             "the first 1..64 bins (cap of the ziggurat) and beyond 2..20 (tails), two-stage p<1e-6 twice; the integer-valued samplers "
             "(alias tables, loaded dice, dice, flip, bernoulli, geometric, poisson, binomial) 6e7..5e8 draws each, one bin per value: "
             "no draw on a value of probability zero, chi-square, exact binomial test per value"),
    "headline": ["parameter_sets", "draws", "support_checks", "fit_tests", "stage2_reruns", "bulk_draws", "bulk_samplers", "bulk_tests", "bulk_worst_p_ppm_std_exponential", "bulk_worst_p_ppm_alias", "bulk_worst_p_ppm_geometric",
                 "bulk_worst_p_ppm_std_normal", "worst_p_ppm_std_normal",
                 "worst_p_ppm_std_exponential", "worst_p_ppm_std_beta", "worst_p_ppm_loaded_dice", "worst_p_ppm_geometric"],
    "min_observed": {"quick": {"parameter_sets": 140, "draws": 20000000, "bulk_draws": 11000000000, "bulk_samplers": 15}},
    "assumptions": ["scipy.stats reference CDF/PMFs are correct", "statistical: false-alarm probability < 1e-9 per parameter set by the two-stage rule",
                    "samplers are driven from the dispatcher context (FP exceptions masked) so NaN results are observed rather than trapped"],
}

PROPS["C01"] = {
    "engines": ENG,
    "jobs": [
        J("ev-mixed", "evfuzz", "rel", 0, 3000, 1500000, chunk=2500),
        J("ev-ties", "evfuzz", "rel", 1, 3000, 1500000, chunk=2500),
        J("ev-large", "evfuzz", "rel", 2, 60, 4000, timeout=120),
        J("ev-mixed-asan", "evfuzz", "asan", 0, 500, 20000),
        J("ev-ties-asan", "evfuzz", "asan", 1, 500, 20000),
        J("ev-large-asan", "evfuzz", "asan", 2, 16, 400, timeout=180),
        J("sf-growth-events-with-waiters", "simfuzz", "rel", 10, 1500, 100000, timeout=60, chunk=2500),
        J("sf-waits-events-with-waiters", "simfuzz", "rel", 0, 1500, 100000, timeout=60, chunk=2500),
    ],
    "rule": ("one case = a random history of schedule / cancel (pending, executed, cancelled, never-issued handles, also on an empty "
             "queue) / reschedule / reprioritise / pattern-cancel / clear, issued from the dispatcher and - about half - from inside running "
             "actions, interleaved with execute_next; times from a lattice with zero increments, 1e-300 steps, nextafter, 1e300, start "
             "time in {0,-100,1e12}; priorities over int64 incl. MIN/MAX; 3-element action/subject/object alphabets; populations up to "
             "1024+; oracle = reference multiset ordered by (time asc, priority desc, handle asc): every action must be the model minimum, "
             "clock == its time, current-event query == its handle throughout the action, queries agree after every op, exactly-once at "
             "drain; distinct = FNV of (profile, population target) + per-case path; non-trivial = >=1 executed time tie and >=1 in-action mutation"),
    "headline": ["events_executed", "time_ties_executed", "time_priority_ties_resolved_by_handle", "mutations_from_inside_actions",
                 "op_schedule", "op_cancel_live", "op_cancel_dead", "op_cancel_on_empty_queue", "op_reschedule", "op_reprioritize",
                 "op_pattern_cancel", "pattern_cancel_multi", "queue_clear_from_action", "queue_growths", "max_queue_capacity", "query_rounds",
                 "c01_event_queries", "c01_queries_on_event_with_waiters", "misc_event_reschedule", "misc_event_pattern_cancel"],
    "key_prefixes": ["C01/", "hang", "abort:cmb_event", "asan:", "ubsan:", "crash:"],
    "min_observed": {"quick": {"time_priority_ties_resolved_by_handle": 5000, "c01_queries_on_event_with_waiters": 30, "mutations_from_inside_actions": 20000, "queue_growths": 500,
                               "op_cancel_on_empty_queue": 100}},
    "assumptions": ["event times passed to schedule/reschedule are finite and >= the current time (documented precondition)",
                    "time/priority/reschedule/reprioritize queries are only made for handles that are pending (documented precondition)"],
}
PROPS["C03"] = {
    "engines": ENG,
    "jobs": [
        J("coro-api", "corofuzz", "rel", 0, 2000, 1000000, chunk=2500),
        J("coro-mechanism", "corofuzz", "rel", 1, 2000, 1000000, chunk=2500),
        J("coro-api-asan", "corofuzz", "asan", 0, 500, 20000),
    ],
    "rule": ("one case = 2-24 coroutines driven by a random scheduler for 30-3000 switches: start, resume, symmetric transfer, yield, "
             "return, exit, stop, restart, children started by coroutines; every switching call goes through an assembly probe that loads "
             "fresh 64-bit patterns (random + corner values + the peer's stack address) into rbx,rbp,r12-r15 and an MXCSR pattern "
             "(4 rounding modes x FTZ/DAZ x masks x flags) before and compares after; 64-byte canary frames at recursion depth 0-40; "
             "unique message tokens; entry (self, context), entry RSP mod 16, initial MXCSR, exit value/route checked; profile 1 calls "
             "the assembly context switch directly between contexts built by the real cmi_coroutine_context_init (no compiled C frame in "
             "between); distinct = fingerprint of the (kind,target) switch sequence; all cases non-trivial"),
    "headline": ["probed_switches", "messages_delivered", "switch_sites", "entries_checked", "stacks_with_size_not_multiple_of_16", "starts", "restarts", "resumes", "transfers",
                 "yields", "stops", "ends_by_return", "ends_by_exit", "ends_observed_by_starter", "returns_through_trampoline",
                 "max_depth_at_switch", "coroutines"],
    "min_observed": {"quick": {"probed_switches": 200000, "restarts": 500, "ends_observed_by_starter": 1000, "returns_through_trampoline": 1000}},
    "assumptions": ["register contents are sampled bit patterns (the switch moves registers without computing on them)",
                    "a coroutine whose starter or caller has finished does not exit / yield (the library release-asserts the target is running)",
                    "mechanism-level profile is not run under ASan (direct switches bypass the fibre annotations of hook H1)"],
}
PROPS["C17"] = {
    "engines": ENG,
    "jobs": [
        J("sum-unweighted", "statcheck", "rel", 0, 3000, 300000),
        J("sum-weighted", "statcheck", "rel", 1, 2000, 200000),
        J("sum-unweighted-asan", "statcheck", "asan", 0, 300, 10000),
        J("sum-weighted-asan", "statcheck", "asan", 1, 300, 10000),
    ],
    "rule": ("4 generated input sequences per case: lengths 0-4, 5-50, 1e3-1e5; classes uniform, heavy-tailed, constant, two-valued, "
             "1e9 offset, magnitudes 1e+-60, small ints, sorted, reverse; count/min/max exact and mean/variance/stddev/skewness/kurtosis "
             "against a __float128 two-pass reference within n*2^-49*kappa^p; merge at every split point (short) or random multi-way (long), "
             "target aliasing either operand, empty operands, merged summary used further; weighted: exact mean, zero-weight samples "
             "ignored, all-ones == unweighted, invariance under weight scaling by 2, 10, 1e-3, 2^40, weighted merge == concatenation; "
             "distinct = fingerprint of (profile, class, length, weight class); non-trivial = >=5 non-constant samples (>=4 positive weights)"),
    "headline": ["inputs", "summaries_vs_exact", "merges", "merge_empty_empty", "merge_empty_nonempty", "merge_target_aliases_operand",
                 "merge_operands_with_an_earlier_life", "merge_targets_holding_older_content", "weighted_merge_operands_with_an_earlier_life", "weighted_merge_targets_holding_older_content",
                 "weighted_means_vs_exact", "zero_weight_relations", "ones_weight_relations", "weight_scale_relations", "weighted_merges",
                 "weighted_merge_with_empty", "ill_conditioned_skipped", "max_err_over_bound_ppm"],
    "min_observed": {"quick": {"summaries_vs_exact": 20000, "merge_empty_empty": 100, "weight_scale_relations": 2000}},
    "assumptions": ["__float128 two-pass statistics are exact enough to serve as reference",
                    "degenerate denominators (constant data) and comparisons whose error bound exceeds 5 % (ill-conditioned) are not compared"],
}
PROPS["C18"] = {
    "engines": ENG,
    "jobs": [
        J("acf-many-lags", "statcheck", "rel", 5, 1, 12, timeout=300, chunk=1),
        J("order-asan", "statcheck", "asan", 2, 1500, 60000, timeout=120),
        J("hist-asan", "statcheck", "asan", 3, 1000, 40000),
        J("acf-asan", "statcheck", "asan", 4, 600, 20000),
        J("order-rel", "statcheck", "rel", 2, 2000, 600000, timeout=120, chunk=2500),
        J("hist-rel", "statcheck", "rel", 3, 1500, 100000),
        J("acf-rel", "statcheck", "rel", 4, 800, 50000),
    ],
    "rule": ("generated inputs: sizes 1-5, 6-60, 1023-1025, 2047-2049, up to 1e4; classes incl. duplicates, constant, sorted, reverse sorted; "
             "time-series weight patterns equal / random / one sample holding 50-99 % (also first or last) / zero durations / unfinalised; "
             "oracles: sort = ascending + same multiset of (x,t,w) triples, sort_t restores; copies equal, storage distinct, copy then "
             "grown across its allocation (ASan); median has <= half weight strictly below and above; five-number text parsed: ordered, "
             "min/max equal data; histogram bins via cmi_dataset_histogram_* equal the definition and sum to n; printed time-weighted "
             "bars proportional to reference weights within one char; ACF[0]=PACF[0]=1, ACF equals its definition, ACF/PACF invariant "
             "under x -> a*x+b, a in {1e-6,1e-3,7,1e6}; distinct = fingerprint (profile, class, size, weight pattern, bins, lags)"),
    "headline": ["inputs", "dataset_sorts", "ts_sorts", "copies_mutated", "dataset_medians", "ts_medians", "fivenum_reports_parsed", "acf_far_shift_relations",
                 "w_dominant", "w_zero_durations", "unfinalised_series", "size_1_5", "size_1023_1025", "size_2047_2049",
                 "dataset_histograms", "hist_with_out_of_range_samples", "ts_histograms_parsed", "acf_computed", "acf_scale_relations"],
    "min_observed": {"quick": {"ts_medians": 2000, "w_dominant": 500, "size_1_5": 200, "acf_scale_relations": 1000}},
    "assumptions": ["%#8.4g rounding is monotone, so order of the printed five numbers reflects order of the values",
                    "histogram bar characters: '#'=1, '='=0.75, '-'=0.25 for the proportionality check (tolerance one character)"],
}


# ------------------------------------------------------------------ simfuzz-based properties
_SF_ASSUME = ["scripts obey the documented preconditions listed in DESIGN.md appendix A (validity decided from return codes and public queries only)",
              "one case is capped at 50000 events; reaching the cap without a stuck clock is inconclusive",
              "violation keys of other properties' monitors seen in a run are reported by those properties' checks"]
_SF_RULE = ("one case = a generated world (0-2 resources, pools cap 1-8, buffers cap {1,3,7,unlimited,2^64-3}, object/priority queues cap "
            "{1,2,5,unlimited}, conditions observing every guard, 2-12 processes or 9-40 in wide worlds, 0-20 plain events, start time in "
            "{0,-100,1e12}) whose processes run random scripts over the whole API with durations from {0,0,0.5,1,1,2,3.25} and priorities from "
            "{-1,0,0,0,1,5,INT64_MIN,INT64_MAX} (ties are the norm), a timeout timer armed before a third of the blocking calls, follow-up "
            "holds after non-success returns; the harness drives cmb_event_execute_next() itself and runs the monitors after every event and "
            "at every clock advance / exhaustion; distinct = fingerprint of world shape + sequence of (call kind, object); non-trivial = at "
            "least one blocking call ended by a cause other than its own completion. ")
_PROFILE = {"waits": 0, "mutex": 1, "queueing": 2, "pool": 3, "wakeup": 4, "lifecycle": 5, "buffer": 6, "queues": 7, "condition": 8, "recording": 9, "growth": 10, "mixed": 11}


def _sf(pid, main, extra, headline, minobs, rule_tail, quick=4000, thorough=1500000):
    jobs = [J(f"sf-{main}", "simfuzz", "rel", _PROFILE[main], quick, thorough, timeout=60, chunk=2500)]
    for e in extra:
        jobs.append(J(f"sf-{e}", "simfuzz", "rel", _PROFILE[e], quick // 4, thorough // 6, timeout=60, chunk=2500))
    jobs.append(J(f"sf-{main}-asan", "simfuzz", "asan", _PROFILE[main], quick // 8, thorough // 20, timeout=120, chunk=1000))
    PROPS[pid] = {"engines": ENG, "jobs": jobs, "rule": _SF_RULE + rule_tail, "headline": headline,
                  "min_observed": {"quick": minobs}, "assumptions": _SF_ASSUME, "key_prefixes": [pid + "/"]}


_sf("C04", "waits", ["mixed", "lifecycle", "condition"],
    ["holds_checked", "followup_holds_checked", "c04_pending_event_audits", "ret_hold_by_interrupt", "ret_hold_by_timer", "ret_wait_process_by_timer",
     "ret_wait_event_by_timer", "ret_resource_acquire_by_timer", "ret_yield_by_resume", "coincidence_timer_with_other_cause",
     "coincidence_interrupt_with_other_cause", "c04_interrupts_never_delivered", "instant_boundaries_checked", "exhaustions_checked"],
    {"holds_checked": 5000, "followup_holds_checked": 1000, "c04_pending_event_audits": 10000, "coincidence_timer_with_other_cause": 50},
    "C04 oracle: cause ledger - every non-success return must consume exactly one live (target, value, time) entry; SUCCESS must coincide "
    "with the call's own completion (hold: clock == call time + d bitwise); at every end of instant each process's pending events must equal "
    "its armed timers, nothing overdue, nobody still waiting for something that has happened.")
_sf("C05", "mutex", ["mixed"],
    ["c05_acquisitions", "c05_acquisitions_after_waiting", "c05_preemptions", "c05_query_rounds", "c09_ends_while_holding", "max_waiting_list_length"],
    {"c05_acquisitions": 10000, "c05_acquisitions_after_waiting": 1000, "c05_preemptions": 100, "c09_ends_while_holding": 100},
    "C05 oracle: shadow holder per resource from return codes only (set on SUCCESS, cleared on release / PREEMPTED / end); a second SUCCESS "
    "while set is a violation unless it is a preemption by an equal-or-higher priority caller; holder/in_use/available/held_by_process "
    "compared with the shadow after every event.")
_sf("C06", "queueing", ["mixed", "condition"],
    ["c06_grants_judged", "c06_grants_with_other_candidates", "c06_grants_past_longer_waiting_lower_priority", "c06_grants_not_judged_priority_changed",
     "op_priority_set_on_blocked_process", "c06_condition_wakeups_ordered", "max_waiting_list_length", "waiting_list_beyond_initial_capacity"],
    {"c06_grants_judged": 5000, "c06_grants_with_other_candidates": 1000, "c06_grants_past_longer_waiting_lower_priority": 100, "op_priority_set_on_blocked_process": 200},
    "C06 oracle: waiting lists snapshotted between events; an entry that leaves while its process stays blocked is a grant and no entry that "
    "was in the list before the event and remains may outrank it (priority desc, entry time asc; exact ties open); list keys must follow "
    "priority_set; processes woken by one condition signal must resume in rank order.")
_sf("C07", "pool", ["mixed"],
    ["c07_acquire_success", "c07_acquire_success_after_waiting", "c07_rollbacks_with_prior_holding", "c07_rollbacks_without_prior_holding",
     "c07_preemption_victims", "c07_victims_in_multistep_acquire", "c07_partial_fulfilments_seen", "c07_acquire_preempted", "c07_conservation_rounds"],
    {"c07_acquire_success": 5000, "c07_rollbacks_with_prior_holding": 50, "c07_rollbacks_without_prior_holding": 100, "c07_preemption_victims": 200, "c07_partial_fulfilments_seen": 500},
    "C07 oracle: shadow holdings per (pool, process) from return codes; in_use == sum of held_by_process <= capacity after every event; "
    "units that leave a process that did not run are a preemption and need a strictly higher-priority preempt call in that event and a "
    "PREEMPTED delivery in that instant.")
_sf("C08", "wakeup", ["mixed", "queues", "pool"],
    ["c08_nonempty_lists_examined", "directed_head_leaves_cases", "c08_heads_with_custom_demand", "misc_guard_cancel_served_next", "instant_boundaries_checked", "exhaustions_checked", "ret_resource_acquire_by_timer", "ret_pool_acquire_by_timer",
     "ret_buffer_get_by_timer", "ret_objectqueue_get_by_timer", "ret_priorityqueue_put_by_timer", "ret_resource_acquire_by_interrupt", "c12_objects_cancelled"],
    {"c08_nonempty_lists_examined": 5000, "ret_resource_acquire_by_timer": 100, "ret_pool_acquire_by_timer": 100, "ret_buffer_get_by_timer": 50},
    "C08 oracle: at every clock advance and at exhaustion no resource/pool/buffer/queue waiting list may have a head whose demand (evaluated "
    "from public queries) is satisfied, and no process taken off a list may still be neither resumed nor re-queued.")
_sf("C09", "lifecycle", ["mixed"],
    ["c09_ended_processes_checked", "c09_waiters_at_end", "c09_waiters_notified_success", "c09_waiters_notified_stopped", "c09_ends_while_holding",
     "c09_ends_with_timers_armed", "c09_restarts_checked", "op_stop_self", "op_stop_running", "op_restart"],
    {"c09_ended_processes_checked": 10000, "c09_waiters_notified_success": 200, "c09_waiters_notified_stopped": 200, "c09_restarts_checked": 200, "op_stop_self": 200},
    "C09 oracle: end-of-life record per process (route, value, instant); every open wait_process caller must return in that instant with "
    "SUCCESS / STOPPED; the ended process must hold nothing, sit in no waiting list, have no pending event, report its exit value, never "
    "execute another script step; a restarted process must begin clean.")
_sf("C11", "buffer", ["mixed"],
    ["c11_put_success", "c11_get_success", "c11_partial_transfers_interrupted", "c11_transfers_interrupted_empty", "c11_amounts_near_2_64"],
    {"c11_put_success": 5000, "c11_partial_transfers_interrupted": 200, "c11_amounts_near_2_64": 50},
    "C11 oracle: the level is sampled at every call, return and event boundary and each change attributed to the put/get of the process "
    "running then; reported amounts must equal the attributed change, level == puts - gets (128-bit), 0 <= level <= capacity.")
_sf("C12", "queues", ["mixed"],
    ["c12_objects_put", "c12_objects_delivered", "c12_objects_cancelled", "c12_blocked_puts_completed", "c12_blocked_gets_completed",
     "c12_priority_ties_at_delivery", "c12_position_queries", "c12_reprioritisations", "queue_trials", "objects_delivered_in_concurrent_trials"],
    {"c12_objects_delivered": 5000, "c12_blocked_puts_completed": 200, "c12_blocked_gets_completed": 200, "c12_priority_ties_at_delivery": 200},
    "C12 oracle: sequential models (FIFO; priority desc then put order) advanced at each completed put/get/cancel/reprioritise; every "
    "delivery must be the model's next object, failed gets deliver nothing, length/space/position agree with the model.")
_sf("C13", "condition", ["mixed"],
    ["c13_explicit_signals", "c13_waiters_evaluated", "c13_signals_head_false_later_true", "c13_satisfied_waiters_woken", "c13_observed_predicates_audited",
     "c13_wakeups_predicate_true", "c13_wakeups_spurious_allowed", "c13_cancels", "c13_removes"],
    {"c13_explicit_signals": 3000, "c13_signals_head_false_later_true": 100, "c13_observed_predicates_audited": 1000, "c13_cancels": 50},
    "C13 oracle: predicates are pure functions of harness flags and public object state; at each explicit signal the expected wake set is "
    "computed and must have left the wait by the end of the instant; a SUCCESS wake-up needs the predicate to have been true at some observed "
    "point of the instant; at every end of instant no waiter may remain whose predicate on an observed object is true (forwarded signals).")
def _add_job(pid, job):
    PROPS[pid]["jobs"].append(job)


_sf("C14", "recording", ["mixed"],
    ["c14_points_compared", "c14_state_changes_seen", "c14_recording_toggles", "c14_time_averages_compared", "c07_preemption_victims", "c09_ends_while_holding",
     "directed_long_history_cases", "max_history_samples", "c14_points_on_histories_beyond_1024_samples"],
    {"c14_points_compared": 50000, "c14_state_changes_seen": 5000, "c14_time_averages_compared": 300},
    "C14 oracle: at every trace record and event boundary the last history sample of a recording object must equal its true state and times "
    "must not decrease; the time-weighted mean of a single recording window must equal the harness' own integral of the state.")

_add_job("C12", J("exp-queues-in-concurrent-trials", "expcheck", "rel", 2, 24, 3000, timeout=300, chunk=2, claim="C12/concurrent-trials/"))
_add_job("C12", J("pq-2^31-objects-through-one-queue", "expcheck", "rel", 6, 5, 16, timeout=3600, chunk=1))
_add_job("C12", J("exp-queues-in-concurrent-trials-tsan", "expcheck", "tsan", 2, 4, 100, timeout=600, chunk=1, claim="C12/concurrent-trials/"))
_add_job("C01", J("exp-event-queues-in-concurrent-trials", "expcheck", "rel", 4, 24, 2000, timeout=300, chunk=2, claim="C01/concurrent-trials/"))
_add_job("C01", J("exp-event-queues-in-concurrent-trials-tsan", "expcheck", "tsan", 4, 4, 100, timeout=600, chunk=1, claim="C01/concurrent-trials/"))
_add_job("C18", J("exp-correlations-in-concurrent-trials", "expcheck", "rel", 7, 24, 2000, timeout=300, chunk=2, claim="C18/concurrent-trials/"))
_add_job("C18", J("exp-correlations-in-concurrent-trials-tsan", "expcheck", "tsan", 7, 4, 100, timeout=600, chunk=1, claim="C18/concurrent-trials/"))
_add_job("C16", J("exp-samplers-in-concurrent-trials", "expcheck", "rel", 5, 24, 1500, timeout=300, chunk=2, claim="C16/concurrent-trials/"))
_add_job("C16", J("exp-samplers-in-concurrent-trials-tsan", "expcheck", "tsan", 5, 3, 60, timeout=600, chunk=1, claim="C16/concurrent-trials/"))
_add_job("C20", J("exp-static-pools-in-concurrent-trials", "expcheck", "rel", 0, 16, 2000, timeout=300, chunk=2, claim="C20/concurrent-trials/"))
_add_job("C20", J("exp-static-pools-in-concurrent-trials-tsan", "expcheck", "tsan", 1, 4, 100, timeout=600, chunk=1, claim="C20/concurrent-trials/"))
_add_job("C17", J("exp-weighted-statistics-in-concurrent-trials", "expcheck", "rel", 3, 24, 3000, timeout=300, chunk=2, claim="C17/concurrent-trials/"))
_add_job("C17", J("exp-weighted-statistics-in-concurrent-trials-tsan", "expcheck", "tsan", 3, 4, 100, timeout=600, chunk=1, claim="C17/concurrent-trials/"))
_add_job("C09", J("sf-directed-reaped-jobs", "simfuzz", "rel", 107, 90, 900))
_add_job("C05", J("sf-directed-objects-that-go-away", "simfuzz", "rel", 108, 48, 240))
_add_job("C04", J("sf-directed-clear-and-continue", "simfuzz", "rel", 104, 480, 4800))
_add_job("C04", J("sf-directed-same-instant-restart", "simfuzz", "rel", 106, 1344, 2688))
_add_job("C09", J("sf-directed-clear-and-continue", "simfuzz", "rel", 104, 480, 4800))
_add_job("C09", J("sf-directed-same-instant-restart", "simfuzz", "rel", 106, 672, 2688))
_add_job("C13", J("sf-directed-condition-crowd", "simfuzz", "rel", 105, 360, 3600, timeout=120))
_add_job("C06", J("sf-directed-condition-crowd", "simfuzz", "rel", 105, 360, 3600, timeout=120))
_add_job("C01", J("sf-waits-event-layer", "simfuzz", "rel", 0, 6000, 400000, timeout=60, chunk=2500))
_add_job("C08", J("sf-directed-first-in-line-leaves", "simfuzz", "rel", 103, 1120, 2240))
_add_job("C06", J("sf-directed-first-in-line-leaves", "simfuzz", "rel", 103, 560, 2240))
_add_job("C14", J("sf-directed-long-histories", "simfuzz", "rel", 102, 24, 600, timeout=120, chunk=2))
_add_job("C14", J("sf-directed-long-histories-asan", "simfuzz", "asan", 102, 4, 60, timeout=300, chunk=1))

# ------------------------------------------------------------------ C10: every engine's corpus under sanitizers
_VG = ["--wrapper", "valgrind -q --error-exitcode=9 --undef-value-errors=yes --track-origins=no --read-var-info=no"]
PROPS["C10"] = {
    "engines": ENG,
    "jobs": (
        [J(f"sf-{n}-asan", "simfuzz", "asan", k, 250 if n != "growth" else 500, 15000, timeout=180) for n, k in _PROFILE.items()]
        + [J(f"sf-{n}-rel", "simfuzz", "rel", k, 400, 30000, timeout=60) for n, k in _PROFILE.items()]
        + [J("ev-asan", "evfuzz", "asan", 0, 300, 10000), J("ev-large-asan", "evfuzz", "asan", 2, 12, 300, timeout=180),
           J("hh-asan", "hhfuzz", "asan", 5, 400, 10000), J("hh-long-asan", "hhfuzz", "asan", 25, 20, 1000),
           J("pool-asan", "poolfuzz", "asan", 1, 100, 5000, timeout=120), J("pool-static-asan", "poolfuzz", "asan", 2, 60, 3000),
           J("stat-order-asan", "statcheck", "asan", 2, 400, 20000, timeout=120), J("stat-hist-asan", "statcheck", "asan", 3, 300, 10000),
           J("stat-sum-asan", "statcheck", "asan", 0, 200, 5000), J("coro-asan", "corofuzz", "asan", 0, 300, 10000)]
        + [J("sf-directed-event-waiters-asan", "simfuzz", "asan", 100, 600, 2730, timeout=120),
           J("sf-directed-event-waiters-rel", "simfuzz", "rel", 100, 600, 2730),
           J("sf-directed-first-in-line-leaves-asan", "simfuzz", "asan", 103, 280, 2240, timeout=120),
           J("sf-directed-long-histories-reported-in-process-asan", "simfuzz", "asan", 102, 6, 60, timeout=300, chunk=1),
           J("sf-directed-long-histories-reported-in-process-rel", "simfuzz", "rel", 102, 12, 300, timeout=120, chunk=2),
           J("sf-directed-clear-and-continue-asan", "simfuzz", "asan", 104, 120, 960, timeout=120),
           J("sf-directed-condition-crowd-asan", "simfuzz", "asan", 105, 60, 720, timeout=300),
           J("sf-directed-same-instant-restart-asan", "simfuzz", "asan", 106, 168, 1344, timeout=120),
           J("sf-directed-reaped-jobs-asan", "simfuzz", "asan", 107, 90, 900, timeout=120),
           J("sf-directed-reaped-jobs-rel", "simfuzz", "rel", 107, 90, 900),
           J("sf-directed-objects-that-go-away-asan", "simfuzz", "asan", 108, 48, 240, timeout=120),
           J("sf-directed-objects-that-go-away-rel", "simfuzz", "rel", 108, 48, 240),
           J("sf-directed-tag-pools-asan", "simfuzz", "asan", 101, 2, 8, timeout=300),
           J("sf-directed-tag-pools-rel", "simfuzz", "rel", 101, 2, 8, timeout=300)]
        + [J("sf-mixed-memcheck", "simfuzz", "rel", 11, 64, 2000, timeout=600, extra=_VG, chunk=4),
           J("sf-growth-memcheck", "simfuzz", "rel", 10, 32, 1000, timeout=600, extra=_VG, chunk=2),
           J("stat-order-memcheck", "statcheck", "rel", 2, 32, 1000, timeout=600, extra=_VG, chunk=2),
           J("ev-memcheck", "evfuzz", "rel", 0, 32, 1000, timeout=600, extra=_VG, chunk=2)]
    ),
    "rule": ("the generated programs of every engine (simfuzz scenarios of all 12 profiles incl. the growth profile with 9-40 processes and up "
             "to 20 plain events waited for, event-queue histories up to 1024+ pending, hashheap histories, pool histories across 64/128 "
             "chunks, datasets/time series across 1024/2048 samples with copies grown, coroutine schedules) re-run against the ASan+UBSan "
             "build (fibre hook H1, pool-poison hook H3), the release build (release asserts) and valgrind memcheck (uninitialised values); "
             "every abnormal end of a child (signal, library assert, sanitizer or memcheck report, hang) is a violation key; the generators' "
             "validity rules (DESIGN.md appendix A) are the argument that the program was valid; distinct = engine case fingerprints"),
    "headline": ["events_executed", "processes", "wide_worlds", "max_event_queue_capacity", "max_waiting_list_length", "waiting_list_beyond_initial_capacity",
                 "reports_printed", "queue_growths", "growths", "expansions", "max_chunks", "copies_mutated", "probed_switches", "plain_events_executed",
                 "directed_event_waiter_cases", "directed_event_waiters", "directed_tag_pool_cases", "directed_timers_armed", "directed_objects_queued"],
    "min_observed": {"quick": {"events_executed": 100000, "waiting_list_beyond_initial_capacity": 100, "reports_printed": 200, "copies_mutated": 500, "expansions": 1000}},
    "assumptions": ["a program generated under the validity rules of DESIGN.md appendix A is a valid program; an abort caused by the harness breaking a "
                    "precondition is a harness bug, not a finding",
                    "NDEBUG is defined as in the shipped configuration (debug asserts are not oracles)",
                    "memcheck runs a small slice (20-50x cost); the mechanism-level coroutine profile is not run under ASan"],
    "key_prefixes": ["abort:", "asan:", "ubsan:", "crash:", "hang", "exit:", "tsan:", "memcheck:"],
}

# --------------------------------------------------------------------------
# Texts for MANIFEST.json (bin/gen_manifest.py)
MANIFEST_TEXT = {
    "C02": {
        "level": ("Differential exploration: tens of thousands of random operation histories per run on the real hashheap with each of "
                  "the five real comparators, compared op-by-op with a flat reference and a structural walker; says the property held "
                  "on the histories explored (counts in evidence), not for all histories."),
        "note": ("Trusts the 60-line reference model and the specified orders encoded in hhfuzz.c:spec_cmp; caller-supplied keys are "
                 "unique and non-zero; ASan/UBSan build re-runs a slice of the same corpus."),
        "technique": "runtime monitoring: randomized operation-history differential vs reference model + structural invariant walker, also under ASan/UBSan",
        "design_ref": "DESIGN.md 4/C02",
    },
    "C19": {
        "level": ("Exploration of thread schedules by repetition: the real experiment runner against a sequential reference of the same "
                  "seeded trials with deliberately different per-worker residue; exactly-once counters; ThreadSanitizer build; held on "
                  "the experiments and schedules that occurred (distinct assignments counted)."),
        "note": "Schedules are whatever the OS produced on 16 cores; pollution and heap scrambling make leftover state differ between the compared runs.",
        "technique": "runtime monitoring: parallel-vs-sequential differential with bitwise oracle, exactly-once counters, state pollution, ThreadSanitizer",
        "design_ref": "DESIGN.md 4/C19",
    },
    "C20": {
        "level": ("Exploration of allocation histories on the real pool code with a shadow map (alignment, disjointness, chunk "
                  "membership, content stability) under AddressSanitizer with free-list poisoning, across the chunk-list growth "
                  "points; held on the histories run."),
        "note": "Trusts the shadow map in poolfuzz.c and ASan+hook H3; population sizes up to ~130 chunks / 600k objects.",
        "technique": "runtime monitoring: shadow-map oracle over random alloc/free histories + AddressSanitizer with pool poisoning hook",
        "design_ref": "DESIGN.md 4/C20",
    },
    "C15": {
        "level": ("Exploration: bitwise comparison of every returned sample between fresh, history-polluted and concurrent executions of "
                  "random call programs, plus the raw stream against an independent reference implementation, plus ThreadSanitizer on "
                  "the concurrent profile; held for the seeds/programs/histories run."),
        "note": "Trusts the 20-line reference generator in rngdet.c; seeds sampled, not enumerated.",
        "technique": "runtime monitoring: differential replay (fresh vs polluted vs concurrent threads) with bitwise oracle, reference-generator comparison, ThreadSanitizer",
        "design_ref": "DESIGN.md 4/C15",
    },
    "C16": {
        "level": ("Statistical exploration: every draw of large seeded samples is checked against the support predicate, and the samples "
                  "against reference distributions (KS, chi-square, moment and tail-mass tests) for ~170 parameter sets including all "
                  "boundary values named by the property; convergence is restated as a bounded goodness-of-fit threshold."),
        "note": "Trusts scipy reference distributions; finite samples: a distortion smaller than ~1e-3 in CDF (quick) is not visible.",
        "technique": "runtime monitoring: per-draw support oracle + goodness-of-fit monitors (KS/chi-square/moments/tails) over seeded samples, two-stage thresholds",
        "design_ref": "DESIGN.md 4/C16",
    },
    "C01": {
        "level": ("Exploration of operation histories on the real event queue against a reference multiset with the specified total "
                  "order; every executed action and a sample of the query surface after every operation is judged; held on the histories run."),
        "note": "Trusts the 30-line reference ordering in evfuzz.c; fingerprints measure distinct histories coarsely (per-case RNG path).",
        "technique": "runtime monitoring: online order/exactly-once monitor against a reference model, hooked inside event actions, also under ASan/UBSan",
        "design_ref": "DESIGN.md 4/C01",
    },
    "C03": {
        "level": ("Exploration of coroutine interleavings with exact-equality oracles on callee-saved registers, MXCSR, stack canaries "
                  "and message tokens at every one of ~10^5..10^8 probed switches, at API level and directly at the assembly mechanism; "
                  "held on the interleavings and bit patterns sampled."),
        "note": "Trusts probe.S (60 lines of assembly) and the harness' model of who is suspended where; register values are sampled, not enumerated.",
        "technique": "runtime monitoring: assembly register/MXCSR probes + stack canaries + unique message tokens over random coroutine schedules; ASan with fibre annotations",
        "design_ref": "DESIGN.md 4/C03",
    },
    "C17": {
        "level": ("Exploration with an exact oracle: every accessor of data summaries compared with __float128 two-pass statistics over "
                  "generated sequences, plus metamorphic relations (split/merge in all shapes, weight scaling, weight-one equivalence, "
                  "zero-weight insertion); held on the sequences generated."),
        "note": "Tolerance n*2^-49*kappa^p (kappa = sqrt(1+mean^2/var)); ill-conditioned comparisons skipped and counted.",
        "technique": "runtime monitoring: exact-reference differential (__float128) + metamorphic relation monitors over generated input sequences, also under ASan/UBSan",
        "design_ref": "DESIGN.md 4/C17",
    },
    "C18": {
        "level": ("Exploration with definitional oracles over generated datasets/time series including the edge sizes and weight patterns "
                  "named by the property; report texts are parsed; ASan watches copies being grown; held on the inputs generated."),
        "note": "Trusts the harness' own evaluation of the definitions; printed-bar proportionality within one character.",
        "technique": "runtime monitoring: definitional predicate monitors (sortedness, multiset, median weight balance, bin placement, ACF invariance) over generated inputs, parsed report texts, ASan/UBSan",
        "design_ref": "DESIGN.md 4/C18",
    },
    "C04": {
        "level": ("Exploration: thousands of generated tie-heavy scenarios run on the real library as real coroutine processes; the cause-ledger monitor over API-boundary traces + end-of-instant audits of pending events "
                  "judges every relevant event of every run; held on the scenarios generated (operation and coincidence counts in evidence)."),
        "note": "Trusts the harness' shadow state (built from return codes and public queries only) and the validity rules of DESIGN.md appendix A.",
        "technique": "runtime monitoring: cause-ledger monitor over API-boundary traces + end-of-instant audits of pending events; scenario fuzzing with same-instant coincidences; also run under ASan/UBSan",
        "design_ref": "DESIGN.md 4/C04, 3.1, appendix A",
    },
    "C05": {
        "level": ("Exploration: thousands of generated tie-heavy scenarios run on the real library as real coroutine processes; the shadow-holder (mutual exclusion) monitor from return codes vs public queries "
                  "judges every relevant event of every run; held on the scenarios generated (operation and coincidence counts in evidence)."),
        "note": "Trusts the harness' shadow state (built from return codes and public queries only) and the validity rules of DESIGN.md appendix A.",
        "technique": "runtime monitoring: shadow-holder (mutual exclusion) monitor from return codes vs public queries; scenario fuzzing with same-instant coincidences; also run under ASan/UBSan",
        "design_ref": "DESIGN.md 4/C05, 3.1, appendix A",
    },
    "C06": {
        "level": ("Exploration: thousands of generated tie-heavy scenarios run on the real library as real coroutine processes; the waiting-list snapshot differencing monitor (grant order) + wake-order monitor "
                  "judges every relevant event of every run; held on the scenarios generated (operation and coincidence counts in evidence)."),
        "note": "Trusts the harness' shadow state (built from return codes and public queries only) and the validity rules of DESIGN.md appendix A.",
        "technique": "runtime monitoring: waiting-list snapshot differencing monitor (grant order) + wake-order monitor; scenario fuzzing with same-instant coincidences; also run under ASan/UBSan",
        "design_ref": "DESIGN.md 4/C06, 3.1, appendix A",
    },
    "C07": {
        "level": ("Exploration: thousands of generated tie-heavy scenarios run on the real library as real coroutine processes; the conservation / shadow-holdings monitor with preemption-victim detection "
                  "judges every relevant event of every run; held on the scenarios generated (operation and coincidence counts in evidence)."),
        "note": "Trusts the harness' shadow state (built from return codes and public queries only) and the validity rules of DESIGN.md appendix A.",
        "technique": "runtime monitoring: conservation / shadow-holdings monitor with preemption-victim detection; scenario fuzzing with same-instant coincidences; also run under ASan/UBSan",
        "design_ref": "DESIGN.md 4/C07, 3.1, appendix A",
    },
    "C08": {
        "level": ("Exploration: thousands of generated tie-heavy scenarios run on the real library as real coroutine processes; the end-of-instant lost-wake-up monitor over all waiting lists "
                  "judges every relevant event of every run; held on the scenarios generated (operation and coincidence counts in evidence)."),
        "note": "Trusts the harness' shadow state (built from return codes and public queries only) and the validity rules of DESIGN.md appendix A.",
        "technique": "runtime monitoring: end-of-instant lost-wake-up monitor over all waiting lists; scenario fuzzing with same-instant coincidences; also run under ASan/UBSan",
        "design_ref": "DESIGN.md 4/C08, 3.1, appendix A",
    },
    "C09": {
        "level": ("Exploration: thousands of generated tie-heavy scenarios run on the real library as real coroutine processes; the end-of-life obligation monitor (waiters, holdings, lists, pending events, exit value) "
                  "judges every relevant event of every run; held on the scenarios generated (operation and coincidence counts in evidence)."),
        "note": "Trusts the harness' shadow state (built from return codes and public queries only) and the validity rules of DESIGN.md appendix A.",
        "technique": "runtime monitoring: end-of-life obligation monitor (waiters, holdings, lists, pending events, exit value); scenario fuzzing with same-instant coincidences; also run under ASan/UBSan",
        "design_ref": "DESIGN.md 4/C09, 3.1, appendix A",
    },
    "C11": {
        "level": ("Exploration: thousands of generated tie-heavy scenarios run on the real library as real coroutine processes; the level-attribution conservation monitor "
                  "judges every relevant event of every run; held on the scenarios generated (operation and coincidence counts in evidence)."),
        "note": "Trusts the harness' shadow state (built from return codes and public queries only) and the validity rules of DESIGN.md appendix A.",
        "technique": "runtime monitoring: level-attribution conservation monitor; scenario fuzzing with same-instant coincidences; also run under ASan/UBSan",
        "design_ref": "DESIGN.md 4/C11, 3.1, appendix A",
    },
    "C12": {
        "level": ("Exploration: thousands of generated tie-heavy scenarios run on the real library as real coroutine processes; the sequential-model (exactly-once, order) monitor with unique object ids "
                  "judges every relevant event of every run; held on the scenarios generated (operation and coincidence counts in evidence)."),
        "note": "Trusts the harness' shadow state (built from return codes and public queries only) and the validity rules of DESIGN.md appendix A.",
        "technique": "runtime monitoring: sequential-model (exactly-once, order) monitor with unique object ids; scenario fuzzing with same-instant coincidences; also run under ASan/UBSan",
        "design_ref": "DESIGN.md 4/C12, 3.1, appendix A",
    },
    "C13": {
        "level": ("Exploration: thousands of generated tie-heavy scenarios run on the real library as real coroutine processes; the expected-wake-set monitor for explicit and forwarded condition signals "
                  "judges every relevant event of every run; held on the scenarios generated (operation and coincidence counts in evidence)."),
        "note": "Trusts the harness' shadow state (built from return codes and public queries only) and the validity rules of DESIGN.md appendix A.",
        "technique": "runtime monitoring: expected-wake-set monitor for explicit and forwarded condition signals; scenario fuzzing with same-instant coincidences; also run under ASan/UBSan",
        "design_ref": "DESIGN.md 4/C13, 3.1, appendix A",
    },
    "C14": {
        "level": ("Exploration: thousands of generated tie-heavy scenarios run on the real library as real coroutine processes; the history-vs-true-trajectory monitor with independent time integral "
                  "judges every relevant event of every run; held on the scenarios generated (operation and coincidence counts in evidence)."),
        "note": "Trusts the harness' shadow state (built from return codes and public queries only) and the validity rules of DESIGN.md appendix A.",
        "technique": "runtime monitoring: history-vs-true-trajectory monitor with independent time integral; scenario fuzzing with same-instant coincidences; also run under ASan/UBSan",
        "design_ref": "DESIGN.md 4/C14, 3.1, appendix A",
    },
    "C10": {
        "level": ("Exploration under instrumentation: every engine's generated valid programs re-run under ASan+UBSan (with fibre and "
                  "pool-poison hooks), in the release configuration for library aborts, and a slice under valgrind memcheck; held on the "
                  "programs run - a clean sanitizer run is a statement about these executions only."),
        "note": "Red-zone tools miss non-adjacent and intra-object overflows; validity of generated programs rests on DESIGN.md appendix A.",
        "technique": "runtime monitoring: AddressSanitizer + UBSan (fibre-annotated), release-assert abort detection, valgrind memcheck over generated valid programs",
        "design_ref": "DESIGN.md 4/C10",
    },
}
NOT_APPLICABLE = {}
