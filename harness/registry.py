"""Property -> engines/jobs table used by bin/check.

job fields: name, engine, flavour (rel|asan|tsan), profile, quick, thorough (case
counts), timeout (s per case), chunk (max cases per runner process), base (first
case index), extra (argv), thorough_only.
"""

ENG = {
    "hhfuzz": {"name": "hhfuzz", "sources": ["hhfuzz.c"]},
    "poolfuzz": {"name": "poolfuzz", "sources": ["poolfuzz.c"]},
    "rngdet": {"name": "rngdet", "sources": ["rngdet.c"]},
    "rngsamp": {"name": "rngsamp", "sources": ["rngsamp.c"]},
    "expcheck": {"name": "expcheck", "sources": ["expcheck.c"]},
    "evfuzz": {"name": "evfuzz", "sources": ["evfuzz.c"]},
    "corofuzz": {"name": "corofuzz", "sources": ["corofuzz.c", "probe.S"]},
    "statcheck": {"name": "statcheck", "sources": ["statcheck.c"], "extra_ldflags": "-lquadmath"},
}


# engines that only make terminating library calls: a case that does not finish is a violation (key "hang")
HANG_IS_VIOLATION = {"hhfuzz", "poolfuzz", "rngdet", "statcheck", "evfuzz", "corofuzz"}


def J(name, engine, flavour, profile, quick, thorough, **kw):
    d = dict(name=name, engine=engine, flavour=flavour, profile=profile, quick=quick, thorough=thorough)
    d.update(kw)
    if engine in HANG_IS_VIOLATION:
        d["extra"] = list(d.get("extra", [])) + ["--hang-violation"]
        d.setdefault("timeout", 30)
    return d


PROPS = {}

_kinds = ["event", "waitlist", "holders", "objprio", "default"]
PROPS["C02"] = {
    "engines": ENG,
    "jobs": (
        [J(f"hh-{k}", "hhfuzz", "rel", i, 2000, 60000) for i, k in enumerate(_kinds)]
        + [J(f"hh-churn-{k}", "hhfuzz", "rel", 10 + i, 300, 6000) for i, k in enumerate(_kinds)]
        + [J(f"hh-long-{k}", "hhfuzz", "rel", 20 + i, 20, 2000, thorough_only=False) for i, k in enumerate(_kinds)]
        + [J(f"hh-asan-{k}", "hhfuzz", "asan", i, 400, 6000) for i, k in enumerate(_kinds)]
    ),
    "rule": ("random operation histories (enqueue with generated/supplied/colliding/re-inserted keys, dequeue, peek, remove, "
             "reprioritize, item+payload mutation, is_enqueued, dkey/ikey, pattern find/count/cancel, clear, reset) against a flat "
             "reference, with the structural walker after every op; one case = one history on one real comparator and initial "
             "exponent 1..6; distinct = FNV fingerprint of (comparator, exponent, key mode, op-code sequence); non-trivial = at "
             "least one capacity doubling and at least one remove-by-key or reprioritize"),
    "headline": ["ops", "growths", "op_remove", "op_reprioritize", "collision_keys", "reinserted_keys",
                 "pattern_ops_multi_match", "max_tombstone_permille", "saw_no_never_used_slot", "cases_3plus_growths", "drained"],
    "min_observed": {"quick": {"growths": 1000, "collision_keys": 1000, "pattern_ops_multi_match": 500},
                     "thorough": {"growths": 10000, "collision_keys": 10000}},
    "assumptions": ["keys supplied by the caller are unique among live entries and non-zero (header contract)",
                    "mixed generated/supplied histories use supplied keys >= 2^40 (DESIGN.md section 8)",
                    "ties the specification leaves open (equal priority and entry time in a waiting list; equal dsortkey under the "
                    "default order) accept any tied minimum"],
}

PROPS["C19"] = {
    "engines": ENG,
    "jobs": [
        J("exp-rel", "expcheck", "rel", 0, 40, 2000, timeout=300, chunk=4),
        J("exp-tsan", "expcheck", "tsan", 1, 12, 300, timeout=600, chunk=2),
    ],
    "rule": ("one case = one experiment: trial count in {1,2,15,16,17,64,200,1000}, element size in {8,24,72,4096,9,13,100}, duration mix "
             "(all short / wide spread / one very long first), trial body = seeded simulation (3-10 processes, resource, pool, buffer, "
             "condition with timeout, interrupts, 12 samplers incl. flip/gamma/geometric caches, resource history summarised), preceded by "
             "a pollution step keyed on the worker thread id and call count (RNG caches left half-consumed, logger mask flipped, heap "
             "scrambled, tag pools grown); after cimba_run_experiment returns: execution count == 1 and own-element tag for every trial, "
             "no foreign pointer, and every result byte (trace hash, event count, 4 doubles) equal to the sequential run of the same "
             "trials in the main thread (run before or after); distinct = fingerprint of (count, size, mix, trial->worker assignment)"),
    "headline": ["experiments", "trials", "simulated_process_steps", "experiments_on_multiple_workers", "max_workers_used",
                 "max_trials_on_one_worker", "experiments_fewer_trials_than_cores", "experiments_trials_equal_cores", "experiments_more_trials_than_cores"],
    "min_observed": {"quick": {"experiments": 40, "trials": 1000, "experiments_on_multiple_workers": 20}},
    "assumptions": ["trial functions seed the generator from their own parameters (as the property states)",
                    "schedules are sampled by repetition; the assignment fingerprint shows how many distinct trial->worker maps were seen",
                    "TSan build: any ThreadSanitizer report in a child is a violation"],
}
PROPS["C20"] = {
    "engines": ENG,
    "jobs": [
        J("pool-geom-asan", "poolfuzz", "asan", 0, 300, 20000),
        J("pool-64chunks-asan", "poolfuzz", "asan", 1, 150, 15000, timeout=120),
        J("pool-static-asan", "poolfuzz", "asan", 2, 100, 5000),
        J("pool-geom-rel", "poolfuzz", "rel", 0, 300, 20000),
        J("pool-64chunks-rel", "poolfuzz", "rel", 1, 150, 15000, timeout=120),
        J("pool-static-rel", "poolfuzz", "rel", 2, 100, 5000),
    ],
    "rule": ("alloc/free histories (ramp to N live, random churn, partial drain, re-ramp, drain) on dynamic pools of object size "
             "{8..4104} x objects-per-chunk {1,3,64,256,page-exact} with N chosen to cross 1,2,3,63,64,65,66,128,129,130 chunks, and on "
             "the library's thread-local static tag pools in the main thread and in short-lived threads; shadow map of live objects "
             "with per-object fill patterns audited on free and at audit points (alignment, overlap, inside-a-chunk, contents); "
             "distinct = fingerprint of (profile, geometry, chunk target, ramp size); non-trivial = more than one chunk"),
    "headline": ["allocs", "frees", "audits", "expansions", "max_chunks", "max_live", "chunk_list_growths", "cases_crossing_64_chunks",
                 "static_pool_main_thread", "static_pool_worker_thread", "pools_destroyed"],
    "min_observed": {"quick": {"cases_crossing_64_chunks": 50, "chunk_list_growths": 20}, "thorough": {"cases_crossing_64_chunks": 2000}},
    "assumptions": ["object sizes are multiples of 8 (documented precondition)",
                    "ASan build: hook H3 poisons objects on the free list, so a touch of a freed object or a doubly handed-out object is an ASan report"],
}

PROPS["C15"] = {
    "engines": ENG,
    "jobs": [
        J("rng-raw-reference", "rngdet", "rel", 0, 40, 2000),
        J("rng-pollution", "rngdet", "rel", 1, 2000, 200000),
        J("rng-threads-tsan", "rngdet", "tsan", 2, 150, 5000, timeout=120),
    ],
    "rule": ("(i) raw 64-bit stream of 50 seeds per case (corner seeds 0,1,2^63,2^64-1,DUMMY + random) x 256 outputs against an independent "
             "splitmix64->sfc64(+20 discards) reference; (ii) pollution differential: a random call program S (40-200 calls over all 36 "
             "sampling functions, random admissible parameters) run after seeding in a fresh thread, in a thread that first ran a random "
             "history H ending half-way through cached state (1-63 coin flips, another gamma shape, another geometric p) and re-seeded, in "
             "the main thread after a history, and concurrently with 1-15 other threads; every returned bit pattern must be identical; "
             "distinct = fingerprint of S's function sequence and H's tail; all cases non-trivial"),
    "headline": ["seeds_vs_reference", "raw_outputs_compared", "pairs_fresh_vs_polluted", "pairs_fresh_vs_main_thread",
                 "pairs_solo_vs_concurrent", "concurrent_threads", "max_threads_at_once", "S_calls", "H_calls", "flip", "std_gamma", "geometric"],
    "min_observed": {"quick": {"pairs_fresh_vs_polluted": 1000, "pairs_solo_vs_concurrent": 1000, "seeds_vs_reference": 1000}},
    "assumptions": ["seeds are sampled (corner values + random), relying on the generator having no seed-dependent control flow",
                    "TSan build runs the thread-heavy profile; a ThreadSanitizer report in any child is a violation"],
}

PROPS["C16"] = {
    "engines": ENG,
    "jobs": [
        dict(name="rng-dist", engine="rngsamp", flavour="rel", profile=0, quick=1, thorough=1, script="rngdist.py"),
    ],
    "rule": ("one case = one (sampler, parameter set) of a ~170-entry grid covering every distribution of the header incl. the boundary "
             "values named in the property (p=1, p near 0/1, probability vectors summing to one only within 1e-3, shapes 0.05..50, n=1, "
             "min~max, build-time ziggurat and alias tables); N seeded draws (2e5 quick / 2e6 thorough; ziggurat samplers 1e7 / 4e7) "
             "checked draw-by-draw against the support predicate and by KS / chi-square / mean z-test / tail-mass tests against scipy "
             "reference distributions with the two-stage p<1e-5 then p<1e-7 rule; distinct = distinct parameter sets; all non-trivial"),
    "headline": ["parameter_sets", "draws", "support_checks", "fit_tests", "stage2_reruns", "worst_p_ppm_std_normal",
                 "worst_p_ppm_std_exponential", "worst_p_ppm_std_beta", "worst_p_ppm_loaded_dice", "worst_p_ppm_geometric"],
    "min_observed": {"quick": {"parameter_sets": 140, "draws": 20000000}},
    "assumptions": ["scipy.stats reference CDF/PMFs are correct", "statistical: false-alarm probability < 1e-9 per parameter set by the two-stage rule",
                    "samplers are driven from the dispatcher context (FP exceptions masked) so NaN results are observed rather than trapped"],
}

PROPS["C01"] = {
    "engines": ENG,
    "jobs": [
        J("ev-mixed", "evfuzz", "rel", 0, 3000, 300000),
        J("ev-ties", "evfuzz", "rel", 1, 3000, 300000),
        J("ev-large", "evfuzz", "rel", 2, 60, 4000, timeout=120),
        J("ev-mixed-asan", "evfuzz", "asan", 0, 500, 20000),
        J("ev-ties-asan", "evfuzz", "asan", 1, 500, 20000),
        J("ev-large-asan", "evfuzz", "asan", 2, 16, 400, timeout=180),
    ],
    "rule": ("one case = a random history of schedule / cancel (pending, executed, cancelled, never-issued handles, also on an empty "
             "queue) / reschedule / reprioritise / pattern-cancel / clear, issued from the dispatcher and - about half - from inside running "
             "actions, interleaved with execute_next; times from a lattice with zero increments, 1e-300 steps, nextafter, 1e300, start "
             "time in {0,-100,1e12}; priorities over int64 incl. MIN/MAX; 3-element action/subject/object alphabets; populations up to "
             "1024+; oracle = reference multiset ordered by (time asc, priority desc, handle asc): every action must be the model minimum, "
             "clock == its time, current-event query == its handle throughout the action, queries agree after every op, exactly-once at "
             "drain; distinct = FNV of (profile, population target) + per-case path; non-trivial = >=1 executed time tie and >=1 in-action mutation"),
    "headline": ["events_executed", "time_ties_executed", "time_priority_ties_resolved_by_handle", "mutations_from_inside_actions",
                 "op_schedule", "op_cancel_live", "op_cancel_dead", "op_cancel_on_empty_queue", "op_reschedule", "op_reprioritize",
                 "op_pattern_cancel", "pattern_cancel_multi", "queue_clear_from_action", "queue_growths", "max_queue_capacity", "query_rounds"],
    "min_observed": {"quick": {"time_priority_ties_resolved_by_handle": 5000, "mutations_from_inside_actions": 20000, "queue_growths": 500,
                               "op_cancel_on_empty_queue": 100}},
    "assumptions": ["event times passed to schedule/reschedule are finite and >= the current time (documented precondition)",
                    "time/priority/reschedule/reprioritize queries are only made for handles that are pending (documented precondition)"],
}
PROPS["C03"] = {
    "engines": ENG,
    "jobs": [
        J("coro-api", "corofuzz", "rel", 0, 2000, 200000),
        J("coro-mechanism", "corofuzz", "rel", 1, 2000, 200000),
        J("coro-api-asan", "corofuzz", "asan", 0, 500, 20000),
    ],
    "rule": ("one case = 2-24 coroutines driven by a random scheduler for 30-3000 switches: start, resume, symmetric transfer, yield, "
             "return, exit, stop, restart, children started by coroutines; every switching call goes through an assembly probe that loads "
             "fresh 64-bit patterns (random + corner values + the peer's stack address) into rbx,rbp,r12-r15 and an MXCSR pattern "
             "(4 rounding modes x FTZ/DAZ x masks x flags) before and compares after; 64-byte canary frames at recursion depth 0-40; "
             "unique message tokens; entry (self, context), entry RSP mod 16, initial MXCSR, exit value/route checked; profile 1 calls "
             "the assembly context switch directly between contexts built by the real cmi_coroutine_context_init (no compiled C frame in "
             "between); distinct = fingerprint of the (kind,target) switch sequence; all cases non-trivial"),
    "headline": ["probed_switches", "messages_delivered", "switch_sites", "entries_checked", "starts", "restarts", "resumes", "transfers",
                 "yields", "stops", "ends_by_return", "ends_by_exit", "ends_observed_by_starter", "returns_through_trampoline",
                 "max_depth_at_switch", "coroutines"],
    "min_observed": {"quick": {"probed_switches": 200000, "restarts": 500, "ends_observed_by_starter": 1000, "returns_through_trampoline": 1000}},
    "assumptions": ["register contents are sampled bit patterns (the switch moves registers without computing on them)",
                    "a coroutine whose starter or caller has finished does not exit / yield (the library release-asserts the target is running)",
                    "mechanism-level profile is not run under ASan (direct switches bypass the fibre annotations of hook H1)"],
}
PROPS["C17"] = {
    "engines": ENG,
    "jobs": [
        J("sum-unweighted", "statcheck", "rel", 0, 3000, 300000),
        J("sum-weighted", "statcheck", "rel", 1, 2000, 200000),
        J("sum-unweighted-asan", "statcheck", "asan", 0, 300, 10000),
        J("sum-weighted-asan", "statcheck", "asan", 1, 300, 10000),
    ],
    "rule": ("4 generated input sequences per case: lengths 0-4, 5-50, 1e3-1e5; classes uniform, heavy-tailed, constant, two-valued, "
             "1e9 offset, magnitudes 1e+-60, small ints, sorted, reverse; count/min/max exact and mean/variance/stddev/skewness/kurtosis "
             "against a __float128 two-pass reference within n*2^-49*kappa^p; merge at every split point (short) or random multi-way (long), "
             "target aliasing either operand, empty operands, merged summary used further; weighted: exact mean, zero-weight samples "
             "ignored, all-ones == unweighted, invariance under weight scaling by 2, 10, 1e-3, 2^40, weighted merge == concatenation; "
             "distinct = fingerprint of (profile, class, length, weight class); non-trivial = >=5 non-constant samples (>=4 positive weights)"),
    "headline": ["inputs", "summaries_vs_exact", "merges", "merge_empty_empty", "merge_empty_nonempty", "merge_target_aliases_operand",
                 "weighted_means_vs_exact", "zero_weight_relations", "ones_weight_relations", "weight_scale_relations", "weighted_merges",
                 "weighted_merge_with_empty", "ill_conditioned_skipped", "max_err_over_bound_ppm"],
    "min_observed": {"quick": {"summaries_vs_exact": 20000, "merge_empty_empty": 100, "weight_scale_relations": 2000}},
    "assumptions": ["__float128 two-pass statistics are exact enough to serve as reference",
                    "degenerate denominators (constant data) and comparisons whose error bound exceeds 5 % (ill-conditioned) are not compared"],
}
PROPS["C18"] = {
    "engines": ENG,
    "jobs": [
        J("order-asan", "statcheck", "asan", 2, 1500, 60000, timeout=120),
        J("hist-asan", "statcheck", "asan", 3, 1000, 40000),
        J("acf-asan", "statcheck", "asan", 4, 600, 20000),
        J("order-rel", "statcheck", "rel", 2, 2000, 200000, timeout=120),
        J("hist-rel", "statcheck", "rel", 3, 1500, 100000),
        J("acf-rel", "statcheck", "rel", 4, 800, 50000),
    ],
    "rule": ("generated inputs: sizes 1-5, 6-60, 1023-1025, 2047-2049, up to 1e4; classes incl. duplicates, constant, sorted, reverse sorted; "
             "time-series weight patterns equal / random / one sample holding 50-99 % (also first or last) / zero durations / unfinalised; "
             "oracles: sort = ascending + same multiset of (x,t,w) triples, sort_t restores; copies equal, storage distinct, copy then "
             "grown across its allocation (ASan); median has <= half weight strictly below and above; five-number text parsed: ordered, "
             "min/max equal data; histogram bins via cmi_dataset_histogram_* equal the definition and sum to n; printed time-weighted "
             "bars proportional to reference weights within one char; ACF[0]=PACF[0]=1, ACF equals its definition, ACF/PACF invariant "
             "under x -> a*x+b, a in {1e-6,1e-3,7,1e6}; distinct = fingerprint (profile, class, size, weight pattern, bins, lags)"),
    "headline": ["inputs", "dataset_sorts", "ts_sorts", "copies_mutated", "dataset_medians", "ts_medians", "fivenum_reports_parsed",
                 "w_dominant", "w_zero_durations", "unfinalised_series", "size_1_5", "size_1023_1025", "size_2047_2049",
                 "dataset_histograms", "hist_with_out_of_range_samples", "ts_histograms_parsed", "acf_computed", "acf_scale_relations"],
    "min_observed": {"quick": {"ts_medians": 2000, "w_dominant": 500, "size_1_5": 200, "acf_scale_relations": 1000}},
    "assumptions": ["%#8.4g rounding is monotone, so order of the printed five numbers reflects order of the values",
                    "histogram bar characters: '#'=1, '='=0.75, '-'=0.25 for the proportionality check (tolerance one character)"],
}

# --------------------------------------------------------------------------
# Texts for MANIFEST.json (bin/gen_manifest.py)
MANIFEST_TEXT = {
    "C02": {
        "level": ("Differential exploration: tens of thousands of random operation histories per run on the real hashheap with each of "
                  "the five real comparators, compared op-by-op with a flat reference and a structural walker; says the property held "
                  "on the histories explored (counts in evidence), not for all histories."),
        "note": ("Trusts the 60-line reference model and the specified orders encoded in hhfuzz.c:spec_cmp; caller-supplied keys are "
                 "unique and non-zero; ASan/UBSan build re-runs a slice of the same corpus."),
        "technique": "runtime monitoring: randomized operation-history differential vs reference model + structural invariant walker, also under ASan/UBSan",
        "design_ref": "DESIGN.md 4/C02",
    },
    "C19": {
        "level": ("Exploration of thread schedules by repetition: the real experiment runner against a sequential reference of the same "
                  "seeded trials with deliberately different per-worker residue; exactly-once counters; ThreadSanitizer build; held on "
                  "the experiments and schedules that occurred (distinct assignments counted)."),
        "note": "Schedules are whatever the OS produced on 16 cores; pollution and heap scrambling make leftover state differ between the compared runs.",
        "technique": "runtime monitoring: parallel-vs-sequential differential with bitwise oracle, exactly-once counters, state pollution, ThreadSanitizer",
        "design_ref": "DESIGN.md 4/C19",
    },
    "C20": {
        "level": ("Exploration of allocation histories on the real pool code with a shadow map (alignment, disjointness, chunk "
                  "membership, content stability) under AddressSanitizer with free-list poisoning, across the chunk-list growth "
                  "points; held on the histories run."),
        "note": "Trusts the shadow map in poolfuzz.c and ASan+hook H3; population sizes up to ~130 chunks / 600k objects.",
        "technique": "runtime monitoring: shadow-map oracle over random alloc/free histories + AddressSanitizer with pool poisoning hook",
        "design_ref": "DESIGN.md 4/C20",
    },
    "C15": {
        "level": ("Exploration: bitwise comparison of every returned sample between fresh, history-polluted and concurrent executions of "
                  "random call programs, plus the raw stream against an independent reference implementation, plus ThreadSanitizer on "
                  "the concurrent profile; held for the seeds/programs/histories run."),
        "note": "Trusts the 20-line reference generator in rngdet.c; seeds sampled, not enumerated.",
        "technique": "runtime monitoring: differential replay (fresh vs polluted vs concurrent threads) with bitwise oracle, reference-generator comparison, ThreadSanitizer",
        "design_ref": "DESIGN.md 4/C15",
    },
    "C16": {
        "level": ("Statistical exploration: every draw of large seeded samples is checked against the support predicate, and the samples "
                  "against reference distributions (KS, chi-square, moment and tail-mass tests) for ~170 parameter sets including all "
                  "boundary values named by the property; convergence is restated as a bounded goodness-of-fit threshold."),
        "note": "Trusts scipy reference distributions; finite samples: a distortion smaller than ~1e-3 in CDF (quick) is not visible.",
        "technique": "runtime monitoring: per-draw support oracle + goodness-of-fit monitors (KS/chi-square/moments/tails) over seeded samples, two-stage thresholds",
        "design_ref": "DESIGN.md 4/C16",
    },
    "C01": {
        "level": ("Exploration of operation histories on the real event queue against a reference multiset with the specified total "
                  "order; every executed action and a sample of the query surface after every operation is judged; held on the histories run."),
        "note": "Trusts the 30-line reference ordering in evfuzz.c; fingerprints measure distinct histories coarsely (per-case RNG path).",
        "technique": "runtime monitoring: online order/exactly-once monitor against a reference model, hooked inside event actions, also under ASan/UBSan",
        "design_ref": "DESIGN.md 4/C01",
    },
    "C03": {
        "level": ("Exploration of coroutine interleavings with exact-equality oracles on callee-saved registers, MXCSR, stack canaries "
                  "and message tokens at every one of ~10^5..10^8 probed switches, at API level and directly at the assembly mechanism; "
                  "held on the interleavings and bit patterns sampled."),
        "note": "Trusts probe.S (60 lines of assembly) and the harness' model of who is suspended where; register values are sampled, not enumerated.",
        "technique": "runtime monitoring: assembly register/MXCSR probes + stack canaries + unique message tokens over random coroutine schedules; ASan with fibre annotations",
        "design_ref": "DESIGN.md 4/C03",
    },
    "C17": {
        "level": ("Exploration with an exact oracle: every accessor of data summaries compared with __float128 two-pass statistics over "
                  "generated sequences, plus metamorphic relations (split/merge in all shapes, weight scaling, weight-one equivalence, "
                  "zero-weight insertion); held on the sequences generated."),
        "note": "Tolerance n*2^-49*kappa^p (kappa = sqrt(1+mean^2/var)); ill-conditioned comparisons skipped and counted.",
        "technique": "runtime monitoring: exact-reference differential (__float128) + metamorphic relation monitors over generated input sequences, also under ASan/UBSan",
        "design_ref": "DESIGN.md 4/C17",
    },
    "C18": {
        "level": ("Exploration with definitional oracles over generated datasets/time series including the edge sizes and weight patterns "
                  "named by the property; report texts are parsed; ASan watches copies being grown; held on the inputs generated."),
        "note": "Trusts the harness' own evaluation of the definitions; printed-bar proportionality within one character.",
        "technique": "runtime monitoring: definitional predicate monitors (sortedness, multiset, median weight balance, bin placement, ACF invariance) over generated inputs, parsed report texts, ASan/UBSan",
        "design_ref": "DESIGN.md 4/C18",
    },
}
NOT_APPLICABLE = {}
